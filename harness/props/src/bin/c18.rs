//! C18 — element containers never duplicate, leak or touch a moved-out element.
//!
//! Every element is an `Own`: a non-`Copy`, heap-owning token whose create / observe / clone /
//! drop events go to a per-thread ownership ledger (`monitors::tag`).  The real vek code moves
//! those tokens around; after **every** operation the ledger, vek's own `(start, end)` cursors
//! (read through the `--cfg vek_verif` hook `IntoIter::verif_cursors`) and the values returned
//! are compared with a small sequential model.
//!
//! * `iter_histories`   – consuming iterator: every pull sequence over {next, next_back} of
//!   length <= N+2 for the dimensions 2, 3, 4, 8 (all 10 kinds of those dimensions), a covering
//!   set that visits every reachable `(front, back)` state and both transitions out of it for
//!   16, 32, 64, each history ended by dropping the iterator at that moment; observers
//!   (`len`, `size_hint`, `Debug`, `Hash`, `==`) after every pull.
//! * `iter_random`      – long random interleavings incl. `nth`, `nth_back`, comparison with a
//!   second partially consumed iterator, the harness dropping yielded elements at random times.
//! * `conversions`      – `From<[T;N]>`, `into_array`, `into_tuple`, `From<tuple>`, `from_iter`
//!   (short / exact / long sources), `collect`, `rev().collect()`, `map`, `map2`, `zip`,
//!   `clone` for all 13 kinds; the eight matrix array conversions for all 6 matrix types.
//! * `slice_views`      – `as_slice`/`as_mut_slice`/`Deref`/`AsRef`/`Borrow`/`iter`/`iter_mut`
//!   /`&v` for all 13 kinds: address and order of every entry, writes through the view;
//!   `as_{row,col}_slice` (+mut) of the matrices.
//!
//! `--tool miri` / `--tool memcheck`: the same code single-threaded with `RAW_MEMORY` on (an
//! illegal free / read that the ledger sees is really performed so that the sanitizer sees it
//! too) on a smaller workload.

use monitors::prng::{mix2, Rng, H64};
use monitors::report::{guarded, run_cases, Config, Json, Report, Sub};
use monitors::tag::{ledger_events_from, ledger_len, ledger_live, ledger_mark, ledger_reset, ledger_slot, ledger_take_errors, Ev, Own, RAW_MEMORY};
use props::*;
use std::borrow::{Borrow, BorrowMut};
use std::cell::RefCell;
use std::collections::HashSet;
use std::fmt::Debug;
use std::hash::{Hash, Hasher};
use std::sync::Mutex;
use vek::mat::repr_c::column_major as cm;
use vek::mat::repr_c::row_major as rm;
use vek::vec::repr_c::*;

const PROP: &str = "C18";

// ---------------------------------------------------------------------------------------------
// the hook: vek's own cursors

trait Cursors {
    fn cursors(&self) -> (usize, usize);
}
macro_rules! impl_cursors {
    ($($m:ident),*) => {$(
        impl<T> Cursors for vek::vec::repr_c::$m::IntoIter<T> {
            fn cursors(&self) -> (usize, usize) {
                self.verif_cursors()
            }
        }
    )*};
}
impl_cursors!(vec2, vec3, vec4, vec8, vec16, vec32, vec64, extent2, extent3, rgb, rgba, uv, uvw);

// ---------------------------------------------------------------------------------------------
// histories

#[derive(Clone, Copy, PartialEq, Eq, Hash, Debug)]
enum Op {
    Next,
    Back,
    Nth(u8),
    NthBack(u8),
    Dbg,
    Hsh,
    EqSelf,
    /// compare with a second iterator that had `.0` front and `.1` back pulls
    EqOther(u8, u8),
    /// the harness drops the k-th (mod count) element it still holds
    DropHeld(u8),
}

impl Op {
    fn api(&self, kind: &str) -> String {
        let m = kind.to_lowercase();
        match self {
            Op::Next => format!("{}::IntoIter::next", m),
            Op::Back => format!("{}::IntoIter::next_back", m),
            Op::Nth(_) => format!("{}::IntoIter::nth", m),
            Op::NthBack(_) => format!("{}::IntoIter::nth_back", m),
            Op::Dbg => format!("{}::IntoIter::fmt(Debug)", m),
            Op::Hsh => format!("{}::IntoIter::hash", m),
            Op::EqSelf | Op::EqOther(..) => format!("{}::IntoIter::eq", m),
            Op::DropHeld(_) => format!("{}::IntoIter (harness drops a yielded element)", m),
        }
    }
}

fn ops_text(ops: &[Op]) -> String {
    let mut s = String::new();
    for o in ops {
        if !s.is_empty() {
            s.push(' ');
        }
        match o {
            Op::Next => s.push('F'),
            Op::Back => s.push('B'),
            Op::Nth(k) => s.push_str(&format!("nth({})", k)),
            Op::NthBack(k) => s.push_str(&format!("nth_back({})", k)),
            Op::Dbg => s.push_str("dbg"),
            Op::Hsh => s.push_str("hash"),
            Op::EqSelf => s.push_str("eq_self"),
            Op::EqOther(a, b) => s.push_str(&format!("eq_other({},{})", a, b)),
            Op::DropHeld(k) => s.push_str(&format!("drop_held({})", k)),
        }
    }
    s
}

/// states and transitions of the iterator as seen through the hook, over the whole run:
/// key = (kind index, front, back) / (kind index, front, back, op)
static STATES: Mutex<Option<HashSet<u32>>> = Mutex::new(None);
static TRANS: Mutex<Option<HashSet<u32>>> = Mutex::new(None);

fn st_key(kind: usize, f: usize, b: usize) -> u32 {
    ((kind as u32) << 16) | ((f as u32) << 8) | b as u32
}
fn tr_key(kind: usize, f: usize, b: usize, back: bool) -> u32 {
    ((kind as u32) << 17) | ((back as u32) << 16) | ((f as u32) << 8) | b as u32
}

struct Bad {
    api: String,
    class: &'static str,
    what: &'static str,
    detail: String,
}

/// shadow state of one history
struct Shadow {
    n: usize,
    f: usize,
    b: usize,
    /// per element id: must the ledger show it live?
    expect_live: Vec<bool>,
    /// ids of elements the harness received and still holds
    held: Vec<Own>,
    seen_states: Vec<u32>,
    seen_trans: Vec<u32>,
    kind_ix: usize,
}

fn ledger_check(sh: &Shadow, upto: usize, ctx: &dyn Fn() -> String) -> Result<(), Bad> {
    let ctx = || ctx();
    let errs = ledger_take_errors();
    if !errs.is_empty() {
        let what = if errs[0].starts_with("double-drop") {
            "double_drop"
        } else if errs[0].starts_with("observe-after-drop") {
            "read_after_drop"
        } else {
            "garbage_element"
        };
        return Err(Bad { api: String::new(), class: "ownership", what, detail: format!("{}: ownership ledger: {}", ctx(), errs.join("; ")) });
    }
    for id in 0..upto {
        let s = ledger_slot(id as u32);
        let want = sh.expect_live[id];
        if s.live != want || s.drops != if want { 0 } else { 1 } {
            let what = if s.live && !want {
                "element_not_dropped"
            } else if !s.live && want {
                "element_dropped_early"
            } else {
                "double_drop"
            };
            return Err(Bad {
                api: String::new(),
                class: "ownership",
                what,
                detail: format!("{}: element id {} is {} with {} drop(s); the model says it must be {}", ctx(), id, if s.live { "live" } else { "dropped" }, s.drops, if want { "live and never dropped" } else { "dropped exactly once" }),
            });
        }
    }
    Ok(())
}

fn check_pull(kind: &str, op: Op, got: Option<&Own>, want: Option<usize>) -> Result<(), Bad> {
    let g = got.map(|o| o.id() as usize);
    if g != want {
        return Err(Bad {
            api: op.api(kind),
            class: "wrong_value",
            what: "yield_order",
            detail: format!("{:?} returned {} but the model (elements in declaration order, each at most once) says {}", op, g.map(|x| format!("element id {}", x)).unwrap_or("None".into()), want.map(|x| format!("element id {}", x)).unwrap_or("None".into())),
        });
    }
    Ok(())
}

/// How a history ends.  `mode` 0 drops the iterator; the other modes hand it by value to one of the
/// consuming adaptors, whose callback receives the elements: "dropping it at any moment" includes the
/// moment a consumer's callback unwinds while it owns the element it was just given.
#[derive(Clone, Copy, Debug, PartialEq)]
struct Fin {
    mode: u8,
    /// the callback panics (modes with a callback) / breaks (try_fold) / stops (take) on the k-th element it receives
    at: Option<u8>,
}
const FIN_DROP: Fin = Fin { mode: 0, at: None };
const FIN_NAMES: [&str; 15] = ["drop", "fold", "fold(keeping the elements)", "for_each", "rfold", "rev().for_each", "count", "last", "by_ref().try_fold(break)", "for loop", "collect::<Vec>", "map().sum", "max_by_key", "by_ref().rev().take(k).for_each", "drop (the destructor of one remaining element panics)"];
const FIN_API: [&str; 15] = ["drop", "fold", "fold", "for_each", "rfold", "rev", "count", "last", "try_fold", "next", "collect", "sum", "max_by_key", "rev", "drop"];
/// does mode m run a harness callback that can panic?
fn fin_has_callback(m: u8) -> bool {
    matches!(m, 1 | 2 | 3 | 4 | 5 | 9 | 11)
}

/// consume the iterator according to `fin`; updates the shadow's expectations.  The caller runs the
/// ledger checks that follow every end of history.
fn finish<I>(kind: &'static str, mut it: I, sh: &mut Shadow, fin: Fin) -> Result<(), Bad>
where
    I: Iterator<Item = Own> + DoubleEndedIterator + ExactSizeIterator + Cursors,
{
    let (f, b) = (sh.f, sh.b);
    let rem = b - f;
    let mode = fin.mode;
    let api_of = || format!("{}::IntoIter::{}", kind.to_lowercase(), FIN_API[mode as usize]);
    let got: RefCell<Vec<u32>> = RefCell::new(Vec::new());
    let kept: RefCell<Vec<Own>> = RefCell::new(Vec::new());
    let at = fin.at.map(|k| k as usize);
    // mode 14: nothing is handed out; the iterator is dropped and the destructor of its at-th remaining
    // element panics -- the other remaining elements must still be dropped (exactly once)
    let panics = (fin_has_callback(mode) || mode == 14) && at.map(|k| k < rem).unwrap_or(false);
    // the consumer's callback: notes what it was given, then gives up (unwinding with the element
    // in its hands), keeps the element, or drops it
    let cb = |o: Own, keep: bool| {
        let ix = got.borrow().len();
        got.borrow_mut().push(o.id());
        if fin_has_callback(mode) && Some(ix) == at {
            panic!("consumer gives up on the element #{} it receives", ix);
        }
        if keep {
            kept.borrow_mut().push(o)
        } else {
            drop(o)
        }
    };
    let backwards = matches!(mode, 4 | 5 | 13);
    let mut returned: Option<Own> = None;
    let mut expect_given: Vec<u32> = if backwards { (f as u32..b as u32).rev().collect() } else { (f as u32..b as u32).collect() };
    let mut bad_return: Option<String> = None;
    let r = guarded(|| match mode {
        1 => it.fold((), |(), o| cb(o, false)),
        2 => it.fold((), |(), o| cb(o, true)),
        3 => it.for_each(|o| cb(o, false)),
        4 => it.rfold((), |(), o| cb(o, false)),
        5 => it.rev().for_each(|o| cb(o, true)),
        6 => {
            let c = it.count();
            if c != rem {
                bad_return = Some(format!("count() returned {} but {} elements remained", c, rem));
            }
        }
        7 => {
            returned = it.last();
            let want = if rem > 0 { Some(b as u32 - 1) } else { None };
            if returned.as_ref().map(|o| o.id()) != want {
                bad_return = Some(format!("last() returned {:?} but the model says {:?}", returned.as_ref().map(|o| o.id()), want));
            }
        }
        8 => {
            let stop = at.unwrap_or(usize::MAX);
            let _ = it.by_ref().try_fold((), |(), o| {
                let ix = got.borrow().len();
                cb(o, false);
                if ix == stop { Err(()) } else { Ok(()) }
            });
            let taken = rem.min(stop.saturating_add(1));
            let (cs, ce) = it.cursors();
            if (cs, ce) != (f + taken, b) || it.len() != rem - taken {
                bad_return = Some(format!("after try_fold broke on the element #{} the cursors are ({},{}) and len() = {}, the model says ({},{}) and {}", stop, cs, ce, it.len(), f + taken, b, rem - taken));
            }
            drop(it);
        }
        9 => {
            for o in it {
                cb(o, false);
            }
        }
        10 => {
            let v: Vec<Own> = it.collect();
            for o in v {
                cb(o, true);
            }
        }
        11 => {
            let total: u64 = it.map(|o| { let i = o.id() as u64; cb(o, false); i }).sum();
            let want: u64 = if panics { 0 } else { (f as u64..b as u64).sum() };
            if total != want {
                bad_return = Some(format!("map(id).sum() = {} but the remaining ids add up to {}", total, want));
            }
        }
        12 => {
            returned = it.max_by_key(|o| o.id());
            let want = if rem > 0 { Some(b as u32 - 1) } else { None };
            if returned.as_ref().map(|o| o.id()) != want {
                bad_return = Some(format!("max_by_key(id) returned {:?} but the model says {:?}", returned.as_ref().map(|o| o.id()), want));
            }
        }
        13 => {
            let k = at.unwrap_or(0);
            it.by_ref().rev().take(k).for_each(|o| cb(o, true));
            drop(it);
        }
        14 => {
            if panics {
                monitors::tag::arm_drop_panic(Some((f + at.unwrap()) as u32));
            }
            drop(it)
        }
        _ => drop(it),
    });
    monitors::tag::arm_drop_panic(None);
    // what the callback must have been given
    match mode {
        6 | 7 | 12 | 14 => expect_given.clear(),
        8 => expect_given.truncate(rem.min(at.unwrap_or(usize::MAX).saturating_add(1))),
        13 => expect_given.truncate(rem.min(at.unwrap_or(0))),
        _ => {
            if panics {
                expect_given.truncate(at.unwrap() + 1);
            }
        }
    }
    let keep_back = |sh: &mut Shadow, kept: Vec<Own>, returned: Option<Own>| {
        for o in kept.into_iter().chain(returned) {
            sh.held.push(o);
        }
    };
    // the model after the consumer: everything in [f,b) is gone from the iterator; dropped unless kept
    for id in f..b {
        sh.expect_live[id] = false;
    }
    let kept = kept.into_inner();
    for o in kept.iter().chain(returned.iter()) {
        if (o.id() as usize) < sh.n {
            sh.expect_live[o.id() as usize] = true;
        }
    }
    sh.f = b;
    let got = got.into_inner();
    let ctx = || format!("ending the history in state (start {}, end {}) with {}{}", f, b, FIN_NAMES[mode as usize], match (fin_has_callback(mode), at) { (true, Some(k)) => format!(", the callback panicking on the element #{} it receives", k), (false, Some(k)) if mode == 14 => format!(": remaining element #{}", k), (false, Some(k)) if mode == 8 => format!(", breaking on the element #{}", k), (false, Some(k)) if mode == 13 => format!(" with k = {}", k), _ => String::new() });
    match (&r, panics) {
        (Err(p), false) => {
            keep_back(sh, kept, returned);
            return Err(Bad { api: api_of(), class: "panic", what: "consumer", detail: format!("{}: panicked: {}", ctx(), p) });
        }
        (Ok(()), true) => {
            keep_back(sh, kept, returned);
            return Err(Bad { api: api_of(), class: "wrong_value", what: "callback_panic_swallowed", detail: format!("{}: the callback panicked but the consumer returned normally; elements given to the callback: {:?}", ctx(), got) });
        }
        _ => {}
    }
    if got != expect_given {
        keep_back(sh, kept, returned);
        return Err(Bad { api: api_of(), class: "wrong_value", what: "consumer_yield_order", detail: format!("{}: the callback received element ids {:?}, the model (remaining elements in order, each once) says {:?}", ctx(), got, expect_given) });
    }
    if let Some(msg) = bad_return {
        keep_back(sh, kept, returned);
        return Err(Bad { api: api_of(), class: "wrong_value", what: "consumer_result", detail: format!("{}: {}", ctx(), msg) });
    }
    keep_back(sh, kept, returned);
    ledger_check(sh, sh.n, &ctx).map_err(|mut e| {
        e.api = api_of();
        e
    })
}

/// Run one history on vector kind `V`.  Returns Err(first violation).
fn run_history<V>(kind: &'static str, kind_ix: usize, ops: &[Op]) -> Result<(Vec<u32>, Vec<u32>), Bad>
where
    V: VecX<Own> + IntoIterator<Item = Own>,
    V::IntoIter: DoubleEndedIterator + ExactSizeIterator + Debug + Hash + PartialEq + Cursors,
{
    run_history_fin::<V>(kind, kind_ix, ops, FIN_DROP)
}

fn run_history_fin<V>(kind: &'static str, kind_ix: usize, ops: &[Op], fin: Fin) -> Result<(Vec<u32>, Vec<u32>), Bad>
where
    V: VecX<Own> + IntoIterator<Item = Own>,
    V::IntoIter: DoubleEndedIterator + ExactSizeIterator + Debug + Hash + PartialEq + Cursors,
{
    ledger_reset();
    let n = V::DIM;
    let v = V::from_fn(|_| Own::new());
    let mut sh = Shadow { n, f: 0, b: n, expect_live: vec![true; n], held: Vec::new(), seen_states: Vec::new(), seen_trans: Vec::new(), kind_ix };
    let mark0 = ledger_mark();
    let mut it = match guarded(move || v.into_iter()) {
        Ok(it) => it,
        Err(p) => return Err(Bad { api: format!("{}::into_iter", kind), class: "panic", what: "into_iter", detail: format!("into_iter panicked: {}", p) }),
    };
    let evs = ledger_events_from(mark0);
    if !evs.is_empty() {
        return Err(Bad { api: format!("{}::into_iter", kind), class: "ownership", what: "into_iter_touches_elements", detail: format!("into_iter produced ledger events {:?} (it must only move the elements)", evs) });
    }
    let r = drive(kind, &mut it, &mut sh, ops);
    if r.is_err() {
        // the iterator is in a state the model does not understand: do not touch it or the
        // elements it handed out again (a monitor process that dies reports nothing); under a
        // sanitizer the workload stops at the first report anyway
        std::mem::forget(it);
        for o in sh.held.drain(..) {
            std::mem::forget(o);
        }
        ledger_take_errors();
        return r.map(|_| (Vec::new(), Vec::new()));
    }
    // end of the history: hand the iterator to a consumer ...
    if fin.mode != 0 {
        let mut res = finish(kind, it, &mut sh, fin);
        if res.is_err() {
            for o in sh.held.drain(..) {
                std::mem::forget(o);
            }
            ledger_take_errors();
            return res.map(|_| (Vec::new(), Vec::new()));
        }
        for o in sh.held.drain(..) {
            let id = o.id() as usize;
            drop(o);
            if id < n {
                sh.expect_live[id] = false;
            }
        }
        res = ledger_check(&sh, n, &|| "at the end of the history".to_string()).map_err(|mut e| {
            e.api = format!("{}::IntoIter", kind.to_lowercase());
            e
        });
        if res.is_ok() {
            let live = ledger_live();
            if !live.is_empty() {
                res = Err(Bad { api: format!("{}::IntoIter::{}", kind.to_lowercase(), FIN_API[fin.mode as usize]), class: "ownership", what: "leak", detail: format!("elements still live at the end of the history (ended with {}): ids {:?}", FIN_NAMES[fin.mode as usize], live) });
            }
        }
        ledger_take_errors();
        return res.map(|_| (std::mem::take(&mut sh.seen_states), std::mem::take(&mut sh.seen_trans)));
    }
    // ... or drop the iterator at this moment
    let (f, b) = (sh.f, sh.b);
    let mark = ledger_mark();
    let dropped = guarded(move || drop(it));
    let mut res = r;
    if res.is_ok() {
        if let Err(p) = dropped {
            res = Err(Bad { api: format!("{}::IntoIter::drop", kind.to_lowercase()), class: "panic", what: "drop", detail: format!("dropping the iterator in state ({},{}) panicked: {}", f, b, p) });
        }
    }
    if res.is_ok() {
        let evs = ledger_events_from(mark);
        let mut want: Vec<u32> = (f as u32..b as u32).collect();
        let mut ok = true;
        for e in &evs {
            match e {
                Ev::Drop(id) => {
                    if let Some(p) = want.iter().position(|w| w == id) {
                        want.swap_remove(p);
                    } else {
                        ok = false;
                    }
                }
                _ => ok = false,
            }
        }
        if !ok || !want.is_empty() {
            let what = if !ok { "drop_touches_yielded_element" } else { "remaining_element_not_dropped" };
            res = Err(Bad {
                api: format!("{}::IntoIter::drop", kind.to_lowercase()),
                class: "ownership",
                what,
                detail: format!("dropping the iterator in state (start {}, end {}) produced ledger events {:?}; it must drop exactly the elements with ids {}..{} once each and touch nothing else", f, b, evs, f, b),
            });
        }
        for id in f..b {
            sh.expect_live[id] = false;
        }
    }
    if res.is_ok() {
        res = ledger_check(&sh, n, &|| "after dropping the iterator".to_string()).map_err(|mut e| {
            e.api = format!("{}::IntoIter::drop", kind.to_lowercase());
            e
        });
    }
    // the harness lets go of everything it received
    for o in sh.held.drain(..) {
        let id = o.id() as usize;
        drop(o);
        if id < n {
            sh.expect_live[id] = false;
        }
    }
    if res.is_ok() {
        res = ledger_check(&sh, n, &|| "at the end of the history".to_string()).map_err(|mut e| {
            e.api = format!("{}::IntoIter", kind.to_lowercase());
            e
        });
    }
    if res.is_ok() {
        let live = ledger_live();
        if !live.is_empty() {
            res = Err(Bad { api: format!("{}::IntoIter", kind.to_lowercase()), class: "ownership", what: "leak", detail: format!("elements still live at the end of the history: ids {:?}", live) });
        }
    }
    ledger_take_errors();
    res.map(|_| (std::mem::take(&mut sh.seen_states), std::mem::take(&mut sh.seen_trans)))
}

fn observe_check(kind: &str, op: Op, mark: usize, ranges: &[(usize, usize)], state: (usize, usize)) -> Result<(), Bad> {
    let evs = ledger_events_from(mark);
    for e in &evs {
        let ok = match e {
            Ev::Observe(id) => ranges.iter().any(|(lo, hi)| (*id as usize) >= *lo && (*id as usize) < *hi),
            _ => false,
        };
        if !ok {
            return Err(Bad {
                api: op.api(kind),
                class: "ownership",
                what: "observer_touches_yielded_element",
                detail: format!("{:?} on the iterator in state (start {}, end {}) produced the ledger event {:?}; a safe observer may only read elements not yet yielded (id ranges {:?}); all events: {:?}", op, state.0, state.1, e, ranges, evs),
            });
        }
    }
    Ok(())
}

fn drive<I>(kind: &'static str, it: &mut I, sh: &mut Shadow, ops: &[Op]) -> Result<(), Bad>
where
    I: Iterator<Item = Own> + DoubleEndedIterator + ExactSizeIterator + Debug + Hash + PartialEq + Cursors,
{
    let n = sh.n;
    state_check(kind, it, sh, None)?;
    for &op in ops {
        let pan = |p: String| Bad { api: op.api(kind), class: "panic", what: "iterator_op", detail: format!("{:?} in state ({},{}) panicked: {}", op, sh.f, sh.b, p) };
        match op {
            Op::Next | Op::Back => {
                let back = op == Op::Back;
                sh.seen_trans.push(tr_key(sh.kind_ix, sh.f, sh.b, back));
                let got = guarded(|| if back { it.next_back() } else { it.next() }).map_err(pan)?;
                let want = if sh.f < sh.b {
                    if back {
                        sh.b -= 1;
                        Some(sh.b)
                    } else {
                        sh.f += 1;
                        Some(sh.f - 1)
                    }
                } else {
                    None
                };
                let r = check_pull(kind, op, got.as_ref(), want);
                if let Some(o) = got {
                    if r.is_ok() {
                        sh.held.push(o);
                    } else {
                        std::mem::forget(o);
                    }
                }
                r?;
            }
            Op::Nth(k) | Op::NthBack(k) => {
                let back = matches!(op, Op::NthBack(_));
                let k = k as usize;
                let got = guarded(|| if back { it.nth_back(k) } else { it.nth(k) }).map_err(pan)?;
                // model: k elements are pulled and discarded, then one more is returned
                let avail = sh.b - sh.f;
                let skipped = k.min(avail);
                for _ in 0..skipped {
                    let id = if back {
                        sh.b -= 1;
                        sh.b
                    } else {
                        sh.f += 1;
                        sh.f - 1
                    };
                    sh.expect_live[id] = false;
                }
                let want = if skipped == k && sh.f < sh.b {
                    if back {
                        sh.b -= 1;
                        Some(sh.b)
                    } else {
                        sh.f += 1;
                        Some(sh.f - 1)
                    }
                } else {
                    None
                };
                let r = check_pull(kind, op, got.as_ref(), want);
                if let Some(o) = got {
                    if r.is_ok() {
                        sh.held.push(o);
                    } else {
                        std::mem::forget(o);
                    }
                }
                r?;
            }
            Op::Dbg => {
                let mark = ledger_mark();
                let text = guarded(|| format!("{:?}", it)).map_err(pan)?;
                std::hint::black_box(&text);
                observe_check(kind, op, mark, &[(sh.f, sh.b)], (sh.f, sh.b))?;
            }
            Op::Hsh => {
                let mark = ledger_mark();
                guarded(|| {
                    let mut h = std::collections::hash_map::DefaultHasher::new();
                    it.hash(&mut h);
                    std::hint::black_box(h.finish());
                })
                .map_err(pan)?;
                observe_check(kind, op, mark, &[(sh.f, sh.b)], (sh.f, sh.b))?;
            }
            Op::EqSelf => {
                let mark = ledger_mark();
                #[allow(clippy::eq_op)]
                let same = guarded(|| *it == *it).map_err(pan)?;
                std::hint::black_box(same);
                observe_check(kind, op, mark, &[(sh.f, sh.b)], (sh.f, sh.b))?;
            }
            Op::EqOther(..) => {
                // handled by the caller-specific wrapper below (needs the vector type)
            }
            Op::DropHeld(k) => {
                if !sh.held.is_empty() {
                    let ix = k as usize % sh.held.len();
                    let o = sh.held.swap_remove(ix);
                    let id = o.id() as usize;
                    drop(o);
                    if id < n {
                        sh.expect_live[id] = false;
                    }
                }
            }
        }
        state_check(kind, it, sh, Some(op))?;
    }
    Ok(())
}

fn state_check<I>(kind: &'static str, it: &I, sh: &mut Shadow, after: Option<Op>) -> Result<(), Bad>
where
    I: ExactSizeIterator + Cursors,
{
    let ctx = || match after {
        Some(op) => format!("after {:?}", op),
        None => "after into_iter".to_string(),
    };
    let api = || after.map(|o| o.api(kind)).unwrap_or(format!("{}::into_iter", kind));
    let probe = guarded(|| (it.cursors(), it.len(), it.size_hint()));
    let ((cs, ce), len, hint) = match probe {
        Ok(x) => x,
        Err(p) => return Err(Bad { api: format!("{}::IntoIter::len", kind.to_lowercase()), class: "panic", what: "len", detail: format!("{}: len()/size_hint() panicked in model state ({},{}): {}", ctx(), sh.f, sh.b, p) }),
    };
    sh.seen_states.push(st_key(sh.kind_ix, cs, ce));
    if (cs, ce) != (sh.f, sh.b) {
        return Err(Bad { api: api(), class: "wrong_value", what: "cursor_mismatch", detail: format!("{}: vek's cursors (start,end) = ({},{}) but the model is in state ({},{})", ctx(), cs, ce, sh.f, sh.b) });
    }
    let rem = sh.b - sh.f;
    if len != rem || hint != (rem, Some(rem)) {
        return Err(Bad { api: format!("{}::IntoIter::len", kind.to_lowercase()), class: "wrong_value", what: "len_mismatch", detail: format!("{}: len() = {}, size_hint() = {:?}, but {} elements remain (state ({},{}))", ctx(), len, hint, rem, sh.f, sh.b) });
    }
    ledger_check(sh, sh.n, &ctx).map_err(|mut e| {
        e.api = api();
        e
    })
}

/// `it == other` for a second, partially consumed iterator of the same kind
fn eq_other_history<V>(kind: &'static str, kind_ix: usize, pre: &[Op], pf: usize, pb: usize) -> Result<(), Bad>
where
    V: VecX<Own> + IntoIterator<Item = Own>,
    V::IntoIter: DoubleEndedIterator + ExactSizeIterator + Debug + Hash + PartialEq + Cursors,
{
    ledger_reset();
    let n = V::DIM;
    let v = V::from_fn(|_| Own::new());
    let w = V::from_fn(|_| Own::new());
    let mut sh = Shadow { n, f: 0, b: n, expect_live: vec![true; 2 * n], held: Vec::new(), seen_states: Vec::new(), seen_trans: Vec::new(), kind_ix };
    let mut it = v.into_iter();
    let mut other = w.into_iter();
    let r = (|| -> Result<(), Bad> {
        drive(kind, &mut it, &mut sh, pre)?;
        let (mut of, mut ob) = (n, 2 * n);
        let opan = |p: String| Bad { api: format!("{}::IntoIter::next", kind.to_lowercase()), class: "panic", what: "iterator_op", detail: format!("pull on the second iterator panicked: {}", p) };
        for _ in 0..pf.min(n) {
            if let Some(o) = guarded(|| other.next()).map_err(opan)? {
                let id = o.id() as usize;
                if id != of {
                    std::mem::forget(o);
                    return Err(Bad { api: format!("{}::IntoIter::next", kind.to_lowercase()), class: "wrong_value", what: "yield_order", detail: format!("second iterator: next() returned id {} instead of {}", id, of) });
                }
                sh.expect_live[id] = false;
                of += 1;
            }
        }
        for _ in 0..pb.min(n - pf.min(n)) {
            if let Some(o) = guarded(|| other.next_back()).map_err(opan)? {
                let id = o.id() as usize;
                if id + 1 != ob {
                    std::mem::forget(o);
                    return Err(Bad { api: format!("{}::IntoIter::next_back", kind.to_lowercase()), class: "wrong_value", what: "yield_order", detail: format!("second iterator: next_back() returned id {} instead of {}", id, ob - 1) });
                }
                sh.expect_live[id] = false;
                ob -= 1;
            }
        }
        let op = Op::EqOther(pf as u8, pb as u8);
        let mark = ledger_mark();
        let a = guarded(|| it == other).map_err(|p| Bad { api: op.api(kind), class: "panic", what: "iterator_op", detail: format!("== panicked: {}", p) })?;
        let b = guarded(|| other == it).map_err(|p| Bad { api: op.api(kind), class: "panic", what: "iterator_op", detail: format!("== panicked: {}", p) })?;
        std::hint::black_box((a, b));
        observe_check(kind, op, mark, &[(sh.f, sh.b), (of, ob)], (sh.f, sh.b))?;
        for id in of..ob {
            sh.expect_live[id] = false;
        }
        Ok(())
    })();
    if r.is_err() {
        std::mem::forget(other);
        std::mem::forget(it);
        for o in sh.held.drain(..) {
            std::mem::forget(o);
        }
        ledger_take_errors();
        return r;
    }
    let (f, b) = (sh.f, sh.b);
    if let Err(p) = guarded(move || {
        drop(other);
        drop(it);
    }) {
        ledger_take_errors();
        return Err(Bad { api: format!("{}::IntoIter::drop", kind.to_lowercase()), class: "panic", what: "drop", detail: format!("dropping the two iterators panicked: {}", p) });
    }
    for id in f..b {
        sh.expect_live[id] = false;
    }
    for o in sh.held.drain(..) {
        let id = o.id() as usize;
        drop(o);
        sh.expect_live[id] = false;
    }
    let mut r = r;
    if r.is_ok() {
        r = ledger_check(&sh, 2 * n, &|| "at the end of the comparison history".to_string()).map_err(|mut e| {
            e.api = format!("{}::IntoIter::eq", kind.to_lowercase());
            e
        });
    }
    ledger_take_errors();
    r
}

// ---------------------------------------------------------------------------------------------
// kinds

const KINDS: [(&str, usize); 13] = [("Vec2", 2), ("Extent2", 2), ("Uv", 2), ("Vec3", 3), ("Extent3", 3), ("Rgb", 3), ("Uvw", 3), ("Vec4", 4), ("Rgba", 4), ("Vec8", 8), ("Vec16", 16), ("Vec32", 32), ("Vec64", 64)];

macro_rules! by_kind {
    ($ix:expr, $f:ident ( $($arg:expr),* )) => {
        match $ix {
            0 => $f::<Vec2<Own>>("Vec2", 0, $($arg),*),
            1 => $f::<Extent2<Own>>("Extent2", 1, $($arg),*),
            2 => $f::<Uv<Own>>("Uv", 2, $($arg),*),
            3 => $f::<Vec3<Own>>("Vec3", 3, $($arg),*),
            4 => $f::<Extent3<Own>>("Extent3", 4, $($arg),*),
            5 => $f::<Rgb<Own>>("Rgb", 5, $($arg),*),
            6 => $f::<Uvw<Own>>("Uvw", 6, $($arg),*),
            7 => $f::<Vec4<Own>>("Vec4", 7, $($arg),*),
            8 => $f::<Rgba<Own>>("Rgba", 8, $($arg),*),
            9 => $f::<Vec8<Own>>("Vec8", 9, $($arg),*),
            10 => $f::<Vec16<Own>>("Vec16", 10, $($arg),*),
            11 => $f::<Vec32<Own>>("Vec32", 11, $($arg),*),
            _ => $f::<Vec64<Own>>("Vec64", 12, $($arg),*),
        }
    };
}

#[derive(Clone)]
struct Job {
    kind: usize,
    /// pulls only; observers are woven in by `weave`
    pulls: Vec<Op>,
    /// harness drops each yielded element at once (true) or keeps it to the end (false)
    drop_at_once: bool,
    /// observer after every pull: 0 none, 1 rotating one, 3 all three
    observers: u8,
    family: &'static str,
}

fn weave(j: &Job) -> Vec<Op> {
    let mut ops = Vec::with_capacity(j.pulls.len() * 5 + 3);
    let obs = [Op::Dbg, Op::Hsh, Op::EqSelf];
    if j.observers == 3 {
        ops.extend_from_slice(&obs);
    }
    for (i, &p) in j.pulls.iter().enumerate() {
        ops.push(p);
        if j.drop_at_once {
            ops.push(Op::DropHeld(0));
        }
        match j.observers {
            3 => ops.extend_from_slice(&obs),
            1 => ops.push(obs[i % 3]),
            _ => {}
        }
    }
    ops
}

/// all pull sequences over {F,B} of length 0..=maxlen
fn all_sequences(maxlen: usize) -> Vec<Vec<Op>> {
    let mut out = Vec::new();
    for len in 0..=maxlen {
        for bits in 0u32..(1u32 << len) {
            out.push((0..len).map(|i| if bits >> i & 1 == 1 { Op::Back } else { Op::Next }).collect());
        }
    }
    out
}

/// "k pulls from one end, then the other end to exhaustion and 2 more", k = 0..=n, both orders:
/// visits every reachable (f,b) state and takes both transitions out of every state
fn covering_sequences(n: usize) -> Vec<Vec<Op>> {
    let mut out = Vec::new();
    for k in 0..=n {
        for &(a, b) in &[(Op::Next, Op::Back), (Op::Back, Op::Next)] {
            let mut s = vec![a; k];
            s.extend(std::iter::repeat(b).take(n - k + 1));
            s.push(a);
            out.push(s);
        }
    }
    out
}

fn build_jobs(cfg: &Config) -> Vec<Job> {
    // only the interpreter needs a reduced workload; memcheck runs the native plan
    let sanit = cfg.tool == "miri";
    let thorough = cfg.thorough();
    let mut jobs = Vec::new();
    for (kix, &(_, n)) in KINDS.iter().enumerate() {
        if n <= 8 {
            // complete enumeration; under a sanitizer dimension 8 is reduced to the covering set
            if n == 8 && sanit {
                for (i, s) in covering_sequences(n).into_iter().enumerate() {
                    jobs.push(Job { kind: kix, pulls: s, drop_at_once: i % 2 == 0, observers: if thorough { 3 } else { 1 }, family: "covering" });
                }
                continue;
            }
            for (i, s) in all_sequences(n + 2).into_iter().enumerate() {
                if sanit && !thorough {
                    // one holding policy per history, alternating
                    jobs.push(Job { kind: kix, pulls: s, drop_at_once: i % 2 == 0, observers: 1, family: "enumerated" });
                } else {
                    jobs.push(Job { kind: kix, pulls: s.clone(), drop_at_once: false, observers: 3, family: "enumerated" });
                    jobs.push(Job { kind: kix, pulls: s, drop_at_once: true, observers: 3, family: "enumerated" });
                }
            }
        } else {
            if sanit && n > 16 && !thorough {
                continue;
            }
            let cov = covering_sequences(n);
            for (i, s) in cov.into_iter().enumerate() {
                if sanit {
                    jobs.push(Job { kind: kix, pulls: s, drop_at_once: i % 2 == 0, observers: 1, family: "covering" });
                    continue;
                }
                // drop the iterator at every moment of the sequence; observers on the full one
                let step = if thorough || n == 16 { 1 } else { 3 };
                let mut cut = 0;
                while cut < s.len() {
                    jobs.push(Job { kind: kix, pulls: s[..cut].to_vec(), drop_at_once: (i + cut) % 2 == 0, observers: 0, family: "covering_cut" });
                    cut += step;
                }
                jobs.push(Job { kind: kix, pulls: s.clone(), drop_at_once: i % 2 == 0, observers: 1, family: "covering" });
                if thorough {
                    jobs.push(Job { kind: kix, pulls: s, drop_at_once: i % 2 == 1, observers: 3, family: "covering" });
                }
            }
        }
    }
    jobs
}

fn run_job_kind<V>(kind: &'static str, kix: usize, ops: &[Op]) -> Result<(Vec<u32>, Vec<u32>), Bad>
where
    V: VecX<Own> + IntoIterator<Item = Own>,
    V::IntoIter: DoubleEndedIterator + ExactSizeIterator + Debug + Hash + PartialEq + Cursors,
{
    run_history::<V>(kind, kix, ops)
}

fn eq_other_kind<V>(kind: &'static str, kix: usize, pre: &[Op], pf: usize, pb: usize) -> Result<(), Bad>
where
    V: VecX<Own> + IntoIterator<Item = Own>,
    V::IntoIter: DoubleEndedIterator + ExactSizeIterator + Debug + Hash + PartialEq + Cursors,
{
    eq_other_history::<V>(kind, kix, pre, pf, pb)
}

fn record(s: &mut Sub, cfg: &Config, index: u64, kind: &str, ops: &[Op], r: Result<(), Bad>, hash: u64, nontrivial: bool) {
    match r {
        Ok(()) => {
            s.held(hash, nontrivial);
            if nontrivial && ops.len() >= 6 {
                s.sample(|| format!("{} history [{}] then drop the iterator, then the harness drops what it holds: every element yielded once or dropped once, cursors/len/ledger agree after every step", kind, ops_text(ops)));
            }
        }
        Err(b) => {
            let api = if b.api.is_empty() { format!("{}::IntoIter", kind.to_lowercase()) } else { b.api.clone() };
            let detail = format!("{} history [{}]: {}", kind, ops_text(ops), b.detail);
            let v = violation(PROP, s, &api, "Own", b.class, b.what, detail, cfg.case_seed(), index);
            s.violated(v);
        }
    }
}

fn saw_ops(s: &mut Sub, kind: &str, ops: &[Op]) {
    let mut counts = [0u64; 8];
    let reps = [Op::Next, Op::Back, Op::Nth(0), Op::NthBack(0), Op::Dbg, Op::Hsh, Op::EqSelf, Op::DropHeld(0)];
    for o in ops {
        let ix = match o {
            Op::Next => 0,
            Op::Back => 1,
            Op::Nth(_) => 2,
            Op::NthBack(_) => 3,
            Op::Dbg => 4,
            Op::Hsh => 5,
            Op::EqSelf | Op::EqOther(..) => 6,
            Op::DropHeld(_) => 7,
        };
        counts[ix] += 1;
    }
    for (ix, c) in counts.iter().enumerate() {
        if *c > 0 {
            s.saw_n(&reps[ix].api(kind), *c);
        }
    }
}

fn flush_states(st: Vec<u32>, tr: Vec<u32>) {
    {
        let mut g = STATES.lock().unwrap();
        g.get_or_insert_with(HashSet::new).extend(st);
    }
    let mut g = TRANS.lock().unwrap();
    g.get_or_insert_with(HashSet::new).extend(tr);
}

fn run_enumerated(s: &mut Sub, cfg: &Config, jobs: &[Job], i: u64) {
    let j = &jobs[i as usize];
    let ops = weave(j);
    let (kind, _) = KINDS[j.kind];
    let r = by_kind!(j.kind, run_job_kind(&ops));
    saw_ops(s, kind, &ops);
    s.saw(&format!("{}::into_iter", kind));
    s.saw(&format!("{}::IntoIter::drop", kind.to_lowercase()));
    s.saw(&format!("{}::IntoIter::len", kind.to_lowercase()));
    let fr = j.pulls.iter().filter(|o| **o == Op::Next).count();
    let bk = j.pulls.len() - fr;
    let n = KINDS[j.kind].1;
    let nontrivial = (fr >= 1 && bk >= 1) || j.pulls.len() > n;
    let mut h = H64::new();
    h.s(kind).u(j.drop_at_once as u64).u(j.observers as u64);
    for o in &j.pulls {
        h.u(if *o == Op::Back { 2 } else { 1 });
    }
    let hash = h.get();
    let r = r.map(|(st, tr)| flush_states(st, tr));
    record(s, cfg, i, kind, &ops, r, hash, nontrivial);
}

fn run_random(s: &mut Sub, cfg: &Config, i: u64, small_only: bool) {
    let mut rng = Rng::for_case("iter_random", cfg.case_seed(), i);
    let kix = if small_only { rng.usize_below(10) } else { rng.usize_below(13) };
    let (kind, n) = KINDS[kix];
    let len = 1 + rng.usize_below(2 * n + 6);
    let mut ops = Vec::with_capacity(len);
    for _ in 0..len {
        let r = rng.below(100);
        ops.push(match r {
            0..=27 => Op::Next,
            28..=55 => Op::Back,
            56..=61 => Op::Nth(rng.below(1 + n as u64 / 2) as u8),
            62..=67 => Op::NthBack(rng.below(1 + n as u64 / 2) as u8),
            68..=75 => Op::Dbg,
            76..=82 => Op::Hsh,
            83..=88 => Op::EqSelf,
            _ => Op::DropHeld(rng.below(64) as u8),
        });
    }
    let mut h = H64::new();
    h.s(kind);
    for o in &ops {
        h.s(&format!("{:?}", o));
    }
    let eq_other = rng.chance(1, 4);
    saw_ops(s, kind, &ops);
    if eq_other {
        let pf = rng.usize_below(n + 1);
        let pb = rng.usize_below(n + 1 - pf);
        h.u(1000 + pf as u64).u(pb as u64);
        s.saw(&Op::EqOther(0, 0).api(kind));
        let r = by_kind!(kix, eq_other_kind(&ops, pf, pb));
        let mut shown = ops.clone();
        shown.push(Op::EqOther(pf as u8, pb as u8));
        record(s, cfg, i, kind, &shown, r, h.get(), true);
    } else {
        let r = by_kind!(kix, run_job_kind(&ops));
        let r = r.map(|(st, tr)| flush_states(st, tr));
        let pulls = ops.iter().filter(|o| matches!(o, Op::Next | Op::Back | Op::Nth(_) | Op::NthBack(_))).count();
        record(s, cfg, i, kind, &ops, r, h.get(), pulls >= 2);
    }
}


// ---------------------------------------------------------------------------------------------
// histories that end in a consuming adaptor

struct ConsumeJob {
    kind: usize,
    fp: usize,
    bp: usize,
    fin: Fin,
    drop_at_once: bool,
}

fn consume_jobs(cfg: &Config) -> Vec<ConsumeJob> {
    let sanit = cfg.tool == "miri";
    let thorough = cfg.thorough();
    let mut jobs = Vec::new();
    for (kix, &(_, n)) in KINDS.iter().enumerate() {
        if sanit && !thorough && n > 4 {
            continue;
        }
        // (front pulls, back pulls) before the consumer takes over
        let mut states: Vec<(usize, usize)> = Vec::new();
        if n <= 4 && !(sanit && !thorough && n == 4) {
            for fp in 0..=n {
                for bp in 0..=(n - fp) {
                    states.push((fp, bp));
                }
            }
        } else {
            for &(fp, bp) in &[(0, 0), (1, 0), (0, 1), (2, 1), (n / 2, n / 4), (n - 1, 0), (0, n - 1), (n / 2, n - n / 2), (n, 0)] {
                if fp + bp <= n && !states.contains(&(fp, bp)) {
                    states.push((fp, bp));
                }
            }
        }
        for (si, &(fp, bp)) in states.iter().enumerate() {
            let rem = n - fp - bp;
            for mode in 1..FIN_NAMES.len() as u8 {
                let mut ats: Vec<Option<u8>> = vec![None];
                if fin_has_callback(mode) || mode == 8 || mode == 13 || mode == 14 {
                    for k in [0usize, 1, rem / 2, rem.saturating_sub(1), rem] {
                        let a = Some(k.min(255) as u8);
                        if !ats.contains(&a) {
                            ats.push(a);
                        }
                    }
                }
                if sanit && !thorough {
                    // the interpreter: the callback modes with one early and one late panic
                    ats.retain(|a| a.is_none() || *a == Some(0) || *a == Some(rem.saturating_sub(1).min(255) as u8));
                }
                for (ai, at) in ats.into_iter().enumerate() {
                    jobs.push(ConsumeJob { kind: kix, fp, bp, fin: Fin { mode, at }, drop_at_once: (si + ai + mode as usize) % 2 == 0 });
                }
            }
        }
    }
    jobs
}

fn run_consume_kind<V>(kind: &'static str, kix: usize, ops: &[Op], fin: Fin) -> Result<(Vec<u32>, Vec<u32>), Bad>
where
    V: VecX<Own> + IntoIterator<Item = Own>,
    V::IntoIter: DoubleEndedIterator + ExactSizeIterator + Debug + Hash + PartialEq + Cursors,
{
    run_history_fin::<V>(kind, kix, ops, fin)
}

fn run_consume(s: &mut Sub, cfg: &Config, jobs: &[ConsumeJob], i: u64) {
    let j = &jobs[i as usize];
    let (kind, n) = KINDS[j.kind];
    let mut ops = Vec::new();
    for k in 0..(j.fp + j.bp) {
        // interleave the two ends
        let front = if k % 2 == 0 { k / 2 < j.fp } else { (k + 1) / 2 > j.bp };
        ops.push(if front { Op::Next } else { Op::Back });
        if j.drop_at_once {
            ops.push(Op::DropHeld(0));
        }
    }
    let fr = ops.iter().filter(|o| **o == Op::Next).count();
    let bk = ops.iter().filter(|o| **o == Op::Back).count();
    debug_assert!(fr == j.fp && bk == j.bp, "weaving {} front and {} back pulls gave {} and {}", j.fp, j.bp, fr, bk);
    let r = by_kind!(j.kind, run_consume_kind(&ops, j.fin));
    saw_ops(s, kind, &ops);
    s.saw(&format!("{}::IntoIter::{}", kind.to_lowercase(), FIN_API[j.fin.mode as usize]));
    s.saw(&format!("consumer:{}", FIN_NAMES[j.fin.mode as usize]));
    let rem = n - j.fp - j.bp;
    let unwinds = (fin_has_callback(j.fin.mode) || j.fin.mode == 14) && j.fin.at.map(|k| (k as usize) < rem).unwrap_or(false);
    if unwinds && j.fin.mode == 14 {
        s.saw("element destructor unwinds");
    }
    if unwinds {
        s.saw("consumer callback unwinds");
    }
    let mut h = H64::new();
    h.s("consume").s(kind).u(j.fp as u64).u(j.bp as u64).u(j.fin.mode as u64).u(j.fin.at.map(|k| k as u64 + 1).unwrap_or(0)).u(j.drop_at_once as u64);
    let r = r.map(|_| ());
    match r {
        Ok(()) => {
            s.held(h.get(), rem >= 1);
            if unwinds && rem >= 2 {
                s.sample(|| format!("{} history [{}] then {} with the callback panicking on the element #{} it receives: every element given away once or dropped once, none twice, none leaked", kind, ops_text(&ops), FIN_NAMES[j.fin.mode as usize], j.fin.at.unwrap()));
            }
        }
        Err(b) => {
            let api = if b.api.is_empty() { format!("{}::IntoIter", kind.to_lowercase()) } else { b.api.clone() };
            let detail = format!("{} history [{}]: {}", kind, ops_text(&ops), b.detail);
            let v = violation(PROP, s, &api, "Own", b.class, b.what, detail, cfg.case_seed(), i);
            s.violated(v);
        }
    }
}

// ---------------------------------------------------------------------------------------------
// conversions

fn ids_of<'a>(it: impl Iterator<Item = &'a Own>) -> Vec<u32> {
    it.map(|o| o.id()).collect()
}

struct ConvOut {
    api: String,
    result: Result<(), (&'static str, &'static str, String)>,
    sample: String,
}

fn conv_err(class: &'static str, what: &'static str, detail: String) -> Result<(), (&'static str, &'static str, String)> {
    Err((class, what, detail))
}

/// after a conversion: no ledger errors, exactly `live` ids are live, everything else that was
/// created was dropped exactly once
fn conv_ledger(ctx: &str, live: &[u32]) -> Result<(), (&'static str, &'static str, String)> {
    let errs = ledger_take_errors();
    if !errs.is_empty() {
        let what = if errs[0].starts_with("double-drop") { "double_drop" } else if errs[0].starts_with("observe-after-drop") { "read_after_drop" } else { "garbage_element" };
        return conv_err("ownership", what, format!("{}: ownership ledger: {}", ctx, errs.join("; ")));
    }
    let mut now = ledger_live();
    now.sort();
    let mut want = live.to_vec();
    want.sort();
    if now != want {
        let what = if now.len() > want.len() { "leak" } else { "element_dropped_early" };
        return conv_err("ownership", what, format!("{}: live element ids are {:?} but must be {:?}", ctx, now, want));
    }
    for id in 0..ledger_len() as u32 {
        let s = ledger_slot(id);
        if !s.live && s.drops != 1 {
            return conv_err("ownership", "double_drop", format!("{}: element id {} was dropped {} times", ctx, id, s.drops));
        }
    }
    Ok(())
}

fn conv_final(ctx: &str) -> Result<(), (&'static str, &'static str, String)> {
    conv_ledger(&format!("{} (after everything was dropped)", ctx), &[])
}

macro_rules! tuple_pat {
    ($($a:ident)+) => { ($($a),+) };
}

/// conversions of one vector kind; `variant` selects the function
macro_rules! conv_kind {
    ($fname:ident, $V:ident, $n:expr, [$($a:ident)+]) => {
        fn $fname(variant: usize, param: usize) -> Option<ConvOut> {
            const N: usize = $n;
            let kind = stringify!($V);
            ledger_reset();
            let seq: Vec<u32> = (0..N as u32).collect();
            Some(match variant {
                0 => {
                    let api = format!("From<[T; {}]> for {}", N, kind);
                    let arr: [Own; N] = std::array::from_fn(|_| Own::new());
                    let mark = ledger_mark();
                    let r = guarded(move || <$V<Own>>::from(arr));
                    let res = match r {
                        Err(p) => conv_err("panic", "conversion", format!("panicked: {}", p)),
                        Ok(v) => {
                            let evs = ledger_events_from(mark);
                            let got = ids_of((0..N).map(|i| v.at(i)));
                            let mut res = if got != seq { conv_err("wrong_value", "element_order", format!("array ids 0..{} arrived at the raw fields as {:?}", N, got)) } else if !evs.is_empty() { conv_err("ownership", "conversion_touches_elements", format!("ledger events during the conversion: {:?}", evs)) } else { conv_ledger("after From<[T;N]>", &seq) };
                            drop(v);
                            if res.is_ok() { res = conv_final("From<[T;N]>"); }
                            res
                        }
                    };
                    ConvOut { api, result: res, sample: format!("{}::from([Own; {}]) -> fields hold ids 0..{} in order, no element cloned/dropped/observed, all dropped once afterwards", kind, N, N) }
                }
                1 => {
                    let api = format!("{}::into_array", kind);
                    let v = <$V<Own> as VecX<Own>>::from_fn(|_| Own::new());
                    let mark = ledger_mark();
                    let r = guarded(move || v.into_array());
                    let res = match r {
                        Err(p) => conv_err("panic", "conversion", format!("panicked: {}", p)),
                        Ok(a) => {
                            let evs = ledger_events_from(mark);
                            let got = ids_of(a.iter());
                            let mut res = if got != seq { conv_err("wrong_value", "element_order", format!("fields 0..{} arrived in the array as {:?}", N, got)) } else if !evs.is_empty() { conv_err("ownership", "conversion_touches_elements", format!("ledger events during the conversion: {:?}", evs)) } else { conv_ledger("after into_array", &seq) };
                            drop(a);
                            if res.is_ok() { res = conv_final("into_array"); }
                            res
                        }
                    };
                    ConvOut { api, result: res, sample: format!("{}::into_array() lists the fields in declaration order", kind) }
                }
                2 => {
                    let api = format!("{}::into_tuple", kind);
                    let v = <$V<Own> as VecX<Own>>::from_fn(|_| Own::new());
                    let mark = ledger_mark();
                    let r = guarded(move || v.into_tuple());
                    let res = match r {
                        Err(p) => conv_err("panic", "conversion", format!("panicked: {}", p)),
                        Ok(t) => {
                            let evs = ledger_events_from(mark);
                            let tuple_pat!($($a)+) = t;
                            let items: Vec<Own> = vec![$($a),+];
                            let got = ids_of(items.iter());
                            let mut res = if got != seq { conv_err("wrong_value", "element_order", format!("fields 0..{} arrived in the tuple as {:?}", N, got)) } else if !evs.is_empty() { conv_err("ownership", "conversion_touches_elements", format!("ledger events during the conversion: {:?}", evs)) } else { conv_ledger("after into_tuple", &seq) };
                            drop(items);
                            if res.is_ok() { res = conv_final("into_tuple"); }
                            res
                        }
                    };
                    ConvOut { api, result: res, sample: format!("{}::into_tuple() lists the fields in declaration order", kind) }
                }
                3 => {
                    let api = format!("From<tuple> for {}", kind);
                    $(let $a = Own::new();)+
                    let t = tuple_pat!($($a)+);
                    let mark = ledger_mark();
                    let r = guarded(move || <$V<Own>>::from(t));
                    let res = match r {
                        Err(p) => conv_err("panic", "conversion", format!("panicked: {}", p)),
                        Ok(v) => {
                            let evs = ledger_events_from(mark);
                            let got = ids_of((0..N).map(|i| v.at(i)));
                            let mut res = if got != seq { conv_err("wrong_value", "element_order", format!("tuple ids 0..{} arrived at the raw fields as {:?}", N, got)) } else if !evs.is_empty() { conv_err("ownership", "conversion_touches_elements", format!("ledger events during the conversion: {:?}", evs)) } else { conv_ledger("after From<tuple>", &seq) };
                            drop(v);
                            if res.is_ok() { res = conv_final("From<tuple>"); }
                            res
                        }
                    };
                    ConvOut { api, result: res, sample: format!("{}::from(tuple) places tuple element i in field i", kind) }
                }
                4 => {
                    // from_iter with a source of `param` elements (shorter, exact, longer)
                    let k = param % (N + 3);
                    let api = format!("{}::from_iter", kind);
                    let src: Vec<Own> = (0..k).map(|_| Own::new()).collect();
                    let mut source = src.into_iter();
                    let r = guarded(|| <$V<Own> as std::iter::FromIterator<Own>>::from_iter(&mut source));
                    let res = match r {
                        Err(p) => conv_err("panic", "conversion", format!("panicked: {}", p)),
                        Ok(v) => {
                            let taken = k.min(N);
                            let got = ids_of((0..N).map(|i| v.at(i)));
                            let mut res = Ok(());
                            for i in 0..N {
                                let id = got[i];
                                let slot = ledger_slot(id);
                                if i < taken {
                                    if id != i as u32 { res = conv_err("wrong_value", "element_order", format!("source of {} elements (ids 0..{}): field {} holds id {} (fields: {:?})", k, k, i, id, got)); break; }
                                } else if !slot.default_minted {
                                    res = conv_err("wrong_value", "element_order", format!("source of {} elements: field {} holds id {} which is not a default-constructed element (fields: {:?})", k, i, id, got));
                                    break;
                                }
                            }
                            // the rest of a longer source stays in the source, untouched
                            let rest = ids_of(source.as_slice().iter());
                            let want_rest: Vec<u32> = (taken as u32..k as u32).collect();
                            if res.is_ok() && rest != want_rest { res = conv_err("wrong_value", "source_overconsumed", format!("source of {} elements: after from_iter the source still holds {:?}, expected {:?}", k, rest, want_rest)); }
                            if res.is_ok() {
                                let mut live: Vec<u32> = got.clone();
                                live.extend(rest.iter());
                                res = conv_ledger("after from_iter (the replaced default elements must have been dropped once)", &live);
                            }
                            drop(v);
                            drop(source);
                            if res.is_ok() { res = conv_final("from_iter"); }
                            res
                        }
                    };
                    ConvOut { api, result: res, sample: format!("{}::from_iter(source of {} elements): first min(k,N) fields = source in order, rest default, replaced defaults dropped once, rest of the source untouched", kind, k) }
                }
                5 | 6 => {
                    // explicit pull loops (capped) instead of std adapters: a misbehaving iterator must
                    // not be able to take the monitor process down inside library code
                    let rev = variant == 6;
                    let api = if rev { format!("{}::into_iter + next_back until None", kind) } else { format!("{}::into_iter + next until None", kind) };
                    let v = <$V<Own> as VecX<Own>>::from_fn(|_| Own::new());
                    let mut it = v.into_iter();
                    let mut items: Vec<Own> = Vec::new();
                    let mut res = Ok(());
                    for _ in 0..N + 2 {
                        match guarded(|| if rev { it.next_back() } else { it.next() }) {
                            Err(p) => { res = conv_err("panic", "conversion", format!("panicked: {}", p)); break; }
                            Ok(Some(o)) => items.push(o),
                            Ok(None) => break,
                        }
                    }
                    if res.is_ok() {
                        let got = ids_of(items.iter());
                        let want: Vec<u32> = if rev { seq.iter().rev().cloned().collect() } else { seq.clone() };
                        if got != want { res = conv_err("wrong_value", "element_order", format!("pulled ids {:?}, expected {:?} then None", got, want)); }
                    }
                    if res.is_err() {
                        std::mem::forget(items);
                        std::mem::forget(it);
                    } else {
                        res = conv_ledger("after pulling everything", &seq);
                        if let Err(p) = guarded(move || drop(it)) { res = conv_err("panic", "conversion", format!("dropping the exhausted iterator panicked: {}", p)); }
                        drop(items);
                        if res.is_ok() { res = conv_final("pull all"); }
                    }
                    ConvOut { api, result: res, sample: format!("{}::into_iter() pulled to exhaustion from the {}: every element once in {} order", kind, if rev { "back" } else { "front" }, if rev { "reverse" } else { "declaration" }) }
                }
                7 => {
                    let api = format!("{}::map", kind);
                    let v = <$V<Own> as VecX<Own>>::from_fn(|_| Own::new());
                    let mut calls: Vec<u32> = Vec::new();
                    let r = guarded(|| v.map(|o| { calls.push(o.id()); o }));
                    let res = match r {
                        Err(p) => conv_err("panic", "conversion", format!("panicked: {}", p)),
                        Ok(w) => {
                            let got = ids_of((0..N).map(|i| w.at(i)));
                            let mut sorted = calls.clone(); sorted.sort();
                            let mut res = if got != seq { conv_err("wrong_value", "element_order", format!("map(identity) moved ids 0..{} to fields {:?}", N, got)) } else if sorted != seq { conv_err("ownership", "closure_call_count", format!("the closure was called with ids {:?}; every element must be passed exactly once", calls)) } else { conv_ledger("after map", &seq) };
                            drop(w);
                            if res.is_ok() { res = conv_final("map"); }
                            res
                        }
                    };
                    ConvOut { api, result: res, sample: format!("{}::map(|o| o) passes every element to the closure exactly once and keeps positions", kind) }
                }
                8 => {
                    let api = format!("{}::map2", kind);
                    let v = <$V<Own> as VecX<Own>>::from_fn(|_| Own::new());
                    let w = <$V<Own> as VecX<Own>>::from_fn(|_| Own::new());
                    let r = guarded(move || v.map2(w, |a, b| (a, b)));
                    let res = match r {
                        Err(p) => conv_err("panic", "conversion", format!("panicked: {}", p)),
                        Ok(z) => {
                            let ga = ids_of((0..N).map(|i| &z.at(i).0));
                            let gb = ids_of((0..N).map(|i| &z.at(i).1));
                            let wb: Vec<u32> = (N as u32..2 * N as u32).collect();
                            let all: Vec<u32> = (0..2 * N as u32).collect();
                            let mut res = if ga != seq || gb != wb { conv_err("wrong_value", "element_order", format!("map2 paired ids {:?} with {:?}", ga, gb)) } else { conv_ledger("after map2", &all) };
                            drop(z);
                            if res.is_ok() { res = conv_final("map2"); }
                            res
                        }
                    };
                    ConvOut { api, result: res, sample: format!("{}::map2(other, |a,b| (a,b)) pairs element i with element i, each moved once", kind) }
                }
                9 => {
                    let api = format!("{}::zip", kind);
                    let v = <$V<Own> as VecX<Own>>::from_fn(|_| Own::new());
                    let w = <$V<Own> as VecX<Own>>::from_fn(|_| Own::new());
                    let r = guarded(move || v.zip(w));
                    let res = match r {
                        Err(p) => conv_err("panic", "conversion", format!("panicked: {}", p)),
                        Ok(z) => {
                            let ga = ids_of((0..N).map(|i| &z.at(i).0));
                            let gb = ids_of((0..N).map(|i| &z.at(i).1));
                            let wb: Vec<u32> = (N as u32..2 * N as u32).collect();
                            let all: Vec<u32> = (0..2 * N as u32).collect();
                            let mut res = if ga != seq || gb != wb { conv_err("wrong_value", "element_order", format!("zip paired ids {:?} with {:?}", ga, gb)) } else { conv_ledger("after zip", &all) };
                            drop(z);
                            if res.is_ok() { res = conv_final("zip"); }
                            res
                        }
                    };
                    ConvOut { api, result: res, sample: format!("{}::zip(other) pairs element i with element i", kind) }
                }
                10 => {
                    let api = format!("{}::clone", kind);
                    let v = <$V<Own> as VecX<Own>>::from_fn(|_| Own::new());
                    let mark = ledger_mark();
                    let r = guarded(|| v.clone());
                    let res = match r {
                        Err(p) => conv_err("panic", "conversion", format!("panicked: {}", p)),
                        Ok(w) => {
                            let evs = ledger_events_from(mark);
                            // field i of the copy must be the clone made from element i
                            let mut src_of = std::collections::HashMap::new();
                            for e in &evs { if let Ev::Clone(a, b) = e { src_of.insert(*b, *a); } }
                            let got: Vec<Option<u32>> = (0..N).map(|i| src_of.get(&w.at(i).id()).cloned()).collect();
                            let want: Vec<Option<u32>> = (0..N as u32).map(Some).collect();
                            let orig = ids_of((0..N).map(|i| v.at(i)));
                            let all: Vec<u32> = (0..2 * N as u32).collect();
                            let mut res = if got != want || orig != seq { conv_err("wrong_value", "element_order", format!("clone(): field i of the copy was cloned from elements {:?}; original fields now {:?}", got, orig)) } else if src_of.len() != N { conv_err("ownership", "closure_call_count", format!("clone() cloned {} elements of {}", src_of.len(), N)) } else { conv_ledger("after clone", &all) };
                            drop(w);
                            drop(v);
                            if res.is_ok() { res = conv_final("clone"); }
                            res
                        }
                    };
                    ConvOut { api, result: res, sample: format!("{}::clone() clones element i into field i exactly once", kind) }
                }
                11 => {
                    // k pulls from the front, then the rest from the back (explicit capped loops)
                    let k = param % (N + 1);
                    let api = format!("{}::into_iter: k x next, then next_back until None", kind);
                    let v = <$V<Own> as VecX<Own>>::from_fn(|_| Own::new());
                    let mut it = v.into_iter();
                    let mut head: Vec<Own> = Vec::new();
                    let mut tail: Vec<Own> = Vec::new();
                    let mut res = Ok(());
                    for _ in 0..k {
                        match guarded(|| it.next()) {
                            Err(p) => { res = conv_err("panic", "conversion", format!("panicked: {}", p)); break; }
                            Ok(Some(o)) => head.push(o),
                            Ok(None) => break,
                        }
                    }
                    if res.is_ok() {
                        for _ in 0..N + 2 {
                            match guarded(|| it.next_back()) {
                                Err(p) => { res = conv_err("panic", "conversion", format!("panicked: {}", p)); break; }
                                Ok(Some(o)) => tail.push(o),
                                Ok(None) => break,
                            }
                        }
                    }
                    if res.is_ok() {
                        let gh = ids_of(head.iter());
                        let gt = ids_of(tail.iter());
                        let wh: Vec<u32> = (0..k as u32).collect();
                        let wt: Vec<u32> = (k as u32..N as u32).rev().collect();
                        if gh != wh || gt != wt { res = conv_err("wrong_value", "element_order", format!("{} front pulls gave {:?}, the back pulls until None gave {:?}; expected {:?} and {:?}", k, gh, gt, wh, wt)); }
                    }
                    if res.is_err() {
                        std::mem::forget(head);
                        std::mem::forget(tail);
                        std::mem::forget(it);
                    } else {
                        res = conv_ledger("after front+back pulls", &seq);
                        if let Err(p) = guarded(move || drop(it)) { res = conv_err("panic", "conversion", format!("dropping the exhausted iterator panicked: {}", p)); }
                        drop(head);
                        drop(tail);
                        if res.is_ok() { res = conv_final("front+back pulls"); }
                    }
                    ConvOut { api, result: res, sample: format!("{}::into_iter(): {} pulls from the front, then the rest from the back until None", kind, k) }
                }
                _ => return None,
            })
        }
    };
}

conv_kind!(conv_vec2, Vec2, 2, [a0 a1]);
conv_kind!(conv_extent2, Extent2, 2, [a0 a1]);
conv_kind!(conv_uv, Uv, 2, [a0 a1]);
conv_kind!(conv_vec3, Vec3, 3, [a0 a1 a2]);
conv_kind!(conv_extent3, Extent3, 3, [a0 a1 a2]);
conv_kind!(conv_rgb, Rgb, 3, [a0 a1 a2]);
conv_kind!(conv_uvw, Uvw, 3, [a0 a1 a2]);
conv_kind!(conv_vec4, Vec4, 4, [a0 a1 a2 a3]);
conv_kind!(conv_rgba, Rgba, 4, [a0 a1 a2 a3]);
conv_kind!(conv_vec8, Vec8, 8, [a0 a1 a2 a3 a4 a5 a6 a7]);
conv_kind!(conv_vec16, Vec16, 16, [a0 a1 a2 a3 a4 a5 a6 a7 a8 a9 a10 a11 a12 a13 a14 a15]);
conv_kind!(conv_vec32, Vec32, 32, [a0 a1 a2 a3 a4 a5 a6 a7 a8 a9 a10 a11 a12 a13 a14 a15 a16 a17 a18 a19 a20 a21 a22 a23 a24 a25 a26 a27 a28 a29 a30 a31]);
conv_kind!(conv_vec64, Vec64, 64, [a0 a1 a2 a3 a4 a5 a6 a7 a8 a9 a10 a11 a12 a13 a14 a15 a16 a17 a18 a19 a20 a21 a22 a23 a24 a25 a26 a27 a28 a29 a30 a31 a32 a33 a34 a35 a36 a37 a38 a39 a40 a41 a42 a43 a44 a45 a46 a47 a48 a49 a50 a51 a52 a53 a54 a55 a56 a57 a58 a59 a60 a61 a62 a63]);

const CONV_VARIANTS: usize = 12;

fn conv_dispatch(kix: usize, variant: usize, param: usize) -> Option<ConvOut> {
    match kix {
        0 => conv_vec2(variant, param),
        1 => conv_extent2(variant, param),
        2 => conv_uv(variant, param),
        3 => conv_vec3(variant, param),
        4 => conv_extent3(variant, param),
        5 => conv_rgb(variant, param),
        6 => conv_uvw(variant, param),
        7 => conv_vec4(variant, param),
        8 => conv_rgba(variant, param),
        9 => conv_vec8(variant, param),
        10 => conv_vec16(variant, param),
        11 => conv_vec32(variant, param),
        _ => conv_vec64(variant, param),
    }
}

/// the eight matrix array conversions on one matrix type
macro_rules! mat_conv {
    ($fname:ident, $M:ty, $n:expr, $name:expr) => {
        fn $fname(variant: usize) -> Option<ConvOut> {
            const N: usize = $n;
            const NN: usize = $n * $n;
            ledger_reset();
            let name = $name;
            let seq: Vec<u32> = (0..NN as u32).collect();
            // abstract element (i,j) has id i*N+j when the matrix is built by from_fn
            let row_listing: Vec<u32> = seq.clone();
            let col_listing: Vec<u32> = (0..N).flat_map(|j| (0..N).map(move |i| (i * N + j) as u32)).collect();
            let fns = ["into_row_array", "into_row_arrays", "into_col_array", "into_col_arrays", "from_row_array", "from_row_arrays", "from_col_array", "from_col_arrays"];
            if variant >= 8 {
                return None;
            }
            let api = format!("{}::{}", name, fns[variant]);
            let res = if variant < 4 {
                let m = <$M as MatX<Own>>::from_fn(|_, _| Own::new());
                let mark = ledger_mark();
                let r: Result<Vec<Own>, String> = guarded(move || match variant {
                    0 => m.into_row_array().into_iter().collect(),
                    1 => m.into_row_arrays().into_iter().flat_map(|r| r.into_iter()).collect(),
                    2 => m.into_col_array().into_iter().collect(),
                    _ => m.into_col_arrays().into_iter().flat_map(|r| r.into_iter()).collect(),
                });
                match r {
                    Err(p) => conv_err("panic", "conversion", format!("panicked: {}", p)),
                    Ok(items) => {
                        let evs = ledger_events_from(mark);
                        let got = ids_of(items.iter());
                        let want = if variant < 2 { &row_listing } else { &col_listing };
                        let mut res = if &got != want { conv_err("wrong_value", "element_order", format!("matrix with element (i,j) = id i*{}+j: got listing {:?}, expected {:?}", N, got, want)) } else if !evs.is_empty() { conv_err("ownership", "conversion_touches_elements", format!("ledger events during the conversion: {:?}", evs)) } else { conv_ledger("after the conversion", &seq) };
                        drop(items);
                        if res.is_ok() { res = conv_final("matrix -> array"); }
                        res
                    }
                }
            } else {
                let mark;
                let r: Result<$M, String> = match variant {
                    4 | 6 => {
                        let arr: [Own; NN] = std::array::from_fn(|_| Own::new());
                        mark = ledger_mark();
                        guarded(move || if variant == 4 { <$M>::from_row_array(arr) } else { <$M>::from_col_array(arr) })
                    }
                    _ => {
                        let arr: [[Own; N]; N] = std::array::from_fn(|_| std::array::from_fn(|_| Own::new()));
                        mark = ledger_mark();
                        guarded(move || if variant == 5 { <$M>::from_row_arrays(arr) } else { <$M>::from_col_arrays(arr) })
                    }
                };
                match r {
                    Err(p) => conv_err("panic", "conversion", format!("panicked: {}", p)),
                    Ok(m) => {
                        let evs = ledger_events_from(mark);
                        // array element k must sit at (k / N, k % N) for row arrays, (k % N, k / N) for column arrays
                        let mut res = Ok(());
                        for k in 0..NN {
                            let (i, j) = if variant < 6 { (k / N, k % N) } else { (k % N, k / N) };
                            let id = m.at(i, j).id();
                            if id != k as u32 {
                                res = conv_err("wrong_value", "element_order", format!("array element {} must be matrix element ({},{}) but that position holds id {}", k, i, j, id));
                                break;
                            }
                        }
                        if res.is_ok() && !evs.is_empty() { res = conv_err("ownership", "conversion_touches_elements", format!("ledger events during the conversion: {:?}", evs)); }
                        if res.is_ok() { res = conv_ledger("after the conversion", &seq); }
                        drop(m);
                        if res.is_ok() { res = conv_final("array -> matrix"); }
                        res
                    }
                }
            };
            Some(ConvOut { api, result: res, sample: format!("{}::{} on Own elements: documented order, nothing cloned/dropped/observed by the conversion", name, fns[variant]) })
        }
    };
}
mat_conv!(mconv_r2, rm::Mat2<Own>, 2, "Rows2");
mat_conv!(mconv_c2, cm::Mat2<Own>, 2, "Cols2");
mat_conv!(mconv_r3, rm::Mat3<Own>, 3, "Rows3");
mat_conv!(mconv_c3, cm::Mat3<Own>, 3, "Cols3");
mat_conv!(mconv_r4, rm::Mat4<Own>, 4, "Rows4");
mat_conv!(mconv_c4, cm::Mat4<Own>, 4, "Cols4");

fn mconv_dispatch(m: usize, variant: usize) -> Option<ConvOut> {
    match m {
        0 => mconv_r2(variant),
        1 => mconv_c2(variant),
        2 => mconv_r3(variant),
        3 => mconv_c3(variant),
        4 => mconv_r4(variant),
        _ => mconv_c4(variant),
    }
}

/// flat list of conversion cases: (vector kind, variant, param) then (matrix, variant)
fn conv_cases() -> Vec<(usize, usize, usize, usize)> {
    let mut v = Vec::new();
    for (kix, &(_, n)) in KINDS.iter().enumerate() {
        for variant in 0..CONV_VARIANTS {
            let params = match variant {
                4 => n + 3,
                11 => n + 1,
                _ => 1,
            };
            // for the big kinds only a few source lengths
            for p in 0..params {
                if n > 8 && (variant == 4 || variant == 11) && !(p <= 1 || p + 2 >= n) {
                    continue;
                }
                v.push((0, kix, variant, p));
            }
        }
    }
    for m in 0..6 {
        for variant in 0..8 {
            v.push((1, m, variant, 0));
        }
    }
    v
}

fn run_conv(s: &mut Sub, cfg: &Config, cases: &[(usize, usize, usize, usize)], i: u64) {
    let (fam, a, variant, p) = cases[i as usize];
    let out = if fam == 0 { conv_dispatch(a, variant, p) } else { mconv_dispatch(a, variant) };
    let Some(out) = out else { return };
    s.saw(&out.api);
    match out.result {
        Ok(()) => {
            s.held_enumerated(true);
            s.sample(|| out.sample.clone());
        }
        Err((class, what, detail)) => {
            let v = violation(PROP, s, &out.api, "Own", class, what, format!("{} (source length / split parameter {}): {}", out.api, p, detail), cfg.case_seed(), i);
            s.violated(v);
        }
    }
    ledger_take_errors();
}

// ---------------------------------------------------------------------------------------------
// slice views

fn views_kind<V>(kind: &'static str, _kix: usize, variant: usize) -> Option<ConvOut>
where
    V: VecX<Own> + std::ops::Deref<Target = [Own]> + std::ops::DerefMut + AsRef<[Own]> + AsMut<[Own]> + Borrow<[Own]> + BorrowMut<[Own]>,
    for<'a> &'a V: IntoIterator<Item = &'a Own>,
    for<'a> &'a mut V: IntoIterator<Item = &'a mut Own>,
    V: HasSlices,
{
    ledger_reset();
    let n = V::DIM;
    let mut v = V::from_fn(|_| Own::new());
    let field_addr = |v: &V, i: usize| v.at(i) as *const Own as usize;
    let base = &v as *const V as usize;
    let seq: Vec<u32> = (0..n as u32).collect();
    let names = ["as_slice", "Deref", "AsRef<[T]>", "Borrow<[T]>", "iter", "(&v).into_iter", "as_mut_slice", "iter_mut", "(&mut v).into_iter", "AsMut<[T]>+BorrowMut<[T]>", "size_of"];
    if variant >= names.len() {
        return None;
    }
    let api = format!("{}::{}", kind, names[variant]);
    let check_view = |v: &V, s: &[Own], what: &str| -> Result<(), (&'static str, &'static str, String)> {
        if s.len() != n {
            return conv_err("wrong_value", "view_length", format!("{} has {} entries, the vector has {} elements", what, s.len(), n));
        }
        if s.as_ptr() as usize != base {
            return conv_err("wrong_value", "view_not_aliasing", format!("{} starts at {:#x} but the value lives at {:#x}", what, s.as_ptr() as usize, base));
        }
        for i in 0..n {
            let a = &s[i] as *const Own as usize;
            if a != field_addr(v, i) || s[i].id() != i as u32 {
                return conv_err("wrong_value", "view_order", format!("{} entry {} is at {:#x} with id {}; field {} is at {:#x} with id {}", what, i, a, s[i].id(), i, field_addr(v, i), i));
            }
        }
        Ok(())
    };
    let mark = ledger_mark();
    let mut res = match variant {
        0 => check_view(&v, v.vek_as_slice(), "as_slice()"),
        1 => check_view(&v, &v, "Deref"),
        2 => check_view(&v, v.as_ref(), "as_ref()"),
        3 => check_view(&v, v.borrow(), "borrow()"),
        4 | 5 => {
            let ptrs: Vec<(usize, u32)> = if variant == 4 { v.iter().map(|o| (o as *const Own as usize, o.id())).collect() } else { (&v).into_iter().map(|o| (o as *const Own as usize, o.id())).collect() };
            let want: Vec<(usize, u32)> = (0..n).map(|i| (field_addr(&v, i), i as u32)).collect();
            if ptrs != want {
                conv_err("wrong_value", "view_order", format!("iteration visited (address,id) {:?}, the fields in declaration order are {:?}", ptrs, want))
            } else {
                Ok(())
            }
        }
        6..=9 => {
            // write through the view: entry i replaced -> field i holds the new element, the
            // old one is handed back to us (mem::replace) or dropped in place (assignment)
            let mut res = Ok(());
            let mut expect: Vec<u32> = seq.clone();
            for i in 0..n {
                let fresh = Own::new();
                let fid = fresh.id();
                if i % 2 == 0 {
                    let old = match variant {
                        6 => std::mem::replace(&mut v.vek_as_mut_slice()[i], fresh),
                        7 => std::mem::replace(v.iter_mut().nth(i).unwrap(), fresh),
                        8 => std::mem::replace((&mut v).into_iter().nth(i).unwrap(), fresh),
                        _ => std::mem::replace(&mut AsMut::<[Own]>::as_mut(&mut v)[i], fresh),
                    };
                    if old.id() != expect[i] {
                        res = conv_err("wrong_value", "view_order", format!("replacing view entry {} handed back id {}, field {} held id {}", i, old.id(), i, expect[i]));
                    }
                    drop(old);
                } else {
                    match variant {
                        6 => v.vek_as_mut_slice()[i] = fresh,
                        7 => *v.iter_mut().nth(i).unwrap() = fresh,
                        8 => *(&mut v).into_iter().nth(i).unwrap() = fresh,
                        _ => BorrowMut::<[Own]>::borrow_mut(&mut v)[i] = fresh,
                    }
                }
                expect[i] = fid;
                let got = ids_of((0..n).map(|k| v.at(k)));
                if res.is_ok() && got != expect {
                    res = conv_err("wrong_value", "view_write_misplaced", format!("after writing id {} through view entry {} the fields hold {:?}, expected {:?}", fid, i, got, expect));
                }
                if res.is_err() {
                    break;
                }
            }
            if res.is_ok() {
                res = conv_ledger("after writing through the view (every replaced element dropped exactly once)", &expect);
            }
            res
        }
        _ => {
            let sz = std::mem::size_of::<V>();
            if sz != n * std::mem::size_of::<Own>() {
                conv_err("wrong_value", "view_length", format!("size_of = {} but {} elements of {} bytes", sz, n, std::mem::size_of::<Own>()))
            } else {
                Ok(())
            }
        }
    };
    if res.is_ok() && variant < 6 {
        let evs = ledger_events_from(mark);
        if !evs.is_empty() {
            res = conv_err("ownership", "conversion_touches_elements", format!("taking a view produced ledger events {:?}", evs));
        }
    }
    drop(v);
    if res.is_ok() {
        res = conv_final("slice view");
    }
    Some(ConvOut { api, result: res, sample: format!("{} {}: {} entries, entry i is field i (same address), view starts at the value's own address; writes land in field i", kind, names[variant], n) })
}

/// vek's inherent as_slice/as_mut_slice (not the Deref-provided ones)
trait HasSlices {
    fn vek_as_slice(&self) -> &[Own];
    fn vek_as_mut_slice(&mut self) -> &mut [Own];
}
macro_rules! has_slices {
    ($($V:ident),*) => {$(
        impl HasSlices for $V<Own> {
            fn vek_as_slice(&self) -> &[Own] { $V::as_slice(self) }
            fn vek_as_mut_slice(&mut self) -> &mut [Own] { $V::as_mut_slice(self) }
        }
    )*};
}
has_slices!(Vec2, Vec3, Vec4, Vec8, Vec16, Vec32, Vec64, Extent2, Extent3, Rgb, Rgba, Uv, Uvw);

const VIEW_VARIANTS: usize = 11;

/// matrix flat views on Own elements
macro_rules! mat_views {
    ($fname:ident, $M:ty, $n:expr, $name:expr, $as:ident, $as_mut:ident, $ptr:ident, $ptr_mut:ident, $row_major:expr) => {
        fn $fname(variant: usize) -> Option<ConvOut> {
            const N: usize = $n;
            if variant >= 4 {
                return None;
            }
            ledger_reset();
            let mut m = <$M as MatX<Own>>::from_fn(|_, _| Own::new());
            let base = &m as *const $M as usize;
            let api = format!("{}::{}", $name, [stringify!($as), stringify!($as_mut), stringify!($ptr), stringify!($ptr_mut)][variant]);
            // listing order of the native layout: line l, position k
            let pos = |t: usize| -> (usize, usize) { if $row_major { (t / N, t % N) } else { (t % N, t / N) } };
            let mut res = Ok(());
            if variant == 0 {
                let mark = ledger_mark();
                let r = guarded(|| {
                    let s = m.$as();
                    (s.len(), s.as_ptr() as usize, (0..s.len()).map(|t| (&s[t] as *const Own as usize, s[t].id())).collect::<Vec<_>>())
                });
                match r {
                    Err(p) => res = conv_err("panic", "conversion", format!("panicked: {}", p)),
                    Ok((len, ptr, entries)) => {
                        if len != N * N {
                            res = conv_err("wrong_value", "view_length", format!("view has {} entries, the matrix {} elements", len, N * N));
                        } else if ptr != base {
                            res = conv_err("wrong_value", "view_not_aliasing", format!("view starts at {:#x}, the matrix lives at {:#x}", ptr, base));
                        } else {
                            for t in 0..N * N {
                                let (i, j) = pos(t);
                                let want = (m.at(i, j) as *const Own as usize, (i * N + j) as u32);
                                if entries[t] != want {
                                    res = conv_err("wrong_value", "view_order", format!("view entry {} is (address {:#x}, id {}) but element ({},{}) is (address {:#x}, id {})", t, entries[t].0, entries[t].1, i, j, want.0, want.1));
                                    break;
                                }
                            }
                        }
                        if res.is_ok() && !ledger_events_from(mark).is_empty() {
                            res = conv_err("ownership", "conversion_touches_elements", format!("taking a view produced ledger events {:?}", ledger_events_from(mark)));
                        }
                    }
                }
            } else if variant == 2 {
                // raw pointer to the elements: the matrix's own address, N*N elements in native line order
                let mark = ledger_mark();
                match guarded(|| m.$ptr()) {
                    Err(p) => res = conv_err("panic", "conversion", format!("panicked: {}", p)),
                    Ok(ptr) => {
                        if ptr as usize != base {
                            res = conv_err("wrong_value", "view_not_aliasing", format!("pointer is {:#x}, the matrix lives at {:#x}", ptr as usize, base));
                        } else {
                            for t in 0..N * N {
                                let (i, j) = pos(t);
                                // in bounds of the matrix object (checked above): a real read through the pointer
                                let got = unsafe { (ptr.add(t) as usize, (*ptr.add(t)).id()) };
                                let want = (m.at(i, j) as *const Own as usize, (i * N + j) as u32);
                                if got != want {
                                    res = conv_err("wrong_value", "view_order", format!("pointer + {} is (address {:#x}, id {}) but element ({},{}) is (address {:#x}, id {})", t, got.0, got.1, i, j, want.0, want.1));
                                    break;
                                }
                            }
                        }
                        if res.is_ok() && !ledger_events_from(mark).is_empty() {
                            res = conv_err("ownership", "conversion_touches_elements", format!("taking the pointer produced ledger events {:?}", ledger_events_from(mark)));
                        }
                    }
                }
            } else {
                let via_ptr = variant == 3;
                let mut expect: Vec<u32> = (0..(N * N) as u32).collect();
                for t in 0..N * N {
                    let fresh = Own::new();
                    let fid = fresh.id();
                    let (i, j) = pos(t);
                    let r = guarded(|| {
                        if via_ptr {
                            let p = m.$ptr_mut();
                            if p as usize == base {
                                // in bounds of the matrix object: replace the element, dropping the old one
                                drop(unsafe { std::ptr::replace(p.add(t), fresh) });
                            } else {
                                std::mem::forget(fresh);
                                panic!("mutable pointer is {:#x}, the matrix lives at {:#x}", p as usize, base);
                            }
                        } else {
                            m.$as_mut()[t] = fresh;
                        }
                    });
                    if let Err(p) = r {
                        res = conv_err("panic", "conversion", format!("panicked: {}", p));
                        break;
                    }
                    expect[i * N + j] = fid;
                    let got: Vec<u32> = (0..N * N).map(|k| m.at(k / N, k % N).id()).collect();
                    if got != expect {
                        res = conv_err("wrong_value", "view_write_misplaced", format!("writing id {} through view entry {} (element ({},{})) left the matrix as {:?}, expected {:?}", fid, t, i, j, got, expect));
                        break;
                    }
                }
                if res.is_ok() {
                    res = conv_ledger("after writing through the mutable view", &expect);
                }
            }
            drop(m);
            if res.is_ok() {
                res = conv_final("matrix view");
            }
            Some(ConvOut { api, result: res, sample: format!("{} flat view: N*N entries at the matrix's own address, native line order", $name) })
        }
    };
}
mat_views!(mview_r2, rm::Mat2<Own>, 2, "Rows2", as_row_slice, as_mut_row_slice, as_row_ptr, as_mut_row_ptr, true);
mat_views!(mview_r3, rm::Mat3<Own>, 3, "Rows3", as_row_slice, as_mut_row_slice, as_row_ptr, as_mut_row_ptr, true);
mat_views!(mview_r4, rm::Mat4<Own>, 4, "Rows4", as_row_slice, as_mut_row_slice, as_row_ptr, as_mut_row_ptr, true);
mat_views!(mview_c2, cm::Mat2<Own>, 2, "Cols2", as_col_slice, as_mut_col_slice, as_col_ptr, as_mut_col_ptr, false);
mat_views!(mview_c3, cm::Mat3<Own>, 3, "Cols3", as_col_slice, as_mut_col_slice, as_col_ptr, as_mut_col_ptr, false);
mat_views!(mview_c4, cm::Mat4<Own>, 4, "Cols4", as_col_slice, as_mut_col_slice, as_col_ptr, as_mut_col_ptr, false);

/// plain-data views: u8 / u64 / f32 / bool vectors (alignment and size differ from Own)
fn views_plain(variant: usize) -> Option<ConvOut> {
    macro_rules! plain {
        ($V:ident, $T:ty, $mk:expr) => {{
            let mk = $mk;
            let mut v = <$V<$T> as VecX<$T>>::from_fn(|i| mk(i));
            let n = <$V<$T> as VecX<$T>>::DIM;
            let base = &v as *const _ as usize;
            let mut res = Ok(());
            {
                let s = v.as_slice();
                if s.len() != n || s.as_ptr() as usize != base {
                    res = conv_err("wrong_value", "view_not_aliasing", format!("as_slice: len {} ptr {:#x}, value at {:#x} with {} elements", s.len(), s.as_ptr() as usize, base, n));
                }
                for i in 0..n {
                    if res.is_ok() && (s[i] != mk(i) || &s[i] as *const $T as usize != v.at(i) as *const $T as usize) {
                        res = conv_err("wrong_value", "view_order", format!("as_slice entry {} = {:?} but field {} = {:?}", i, s[i], i, v.at(i)));
                    }
                }
            }
            for i in 0..n {
                let nv = mk(i + 7);
                v.as_mut_slice()[i] = nv;
                if res.is_ok() && *v.at(i) != nv {
                    res = conv_err("wrong_value", "view_write_misplaced", format!("write through as_mut_slice entry {} did not reach field {}", i, i));
                }
            }
            let back = <$V<$T>>::from_slice(v.as_slice());
            for i in 0..n {
                if res.is_ok() && back.at(i) != v.at(i) {
                    res = conv_err("wrong_value", "element_order", format!("from_slice(as_slice) changed field {}", i));
                }
            }
            // from_slice with a source of every length 0..=N+3: the first min(len, N) entries in order,
            // the missing ones Default, the surplus ignored; never a panic
            let src: Vec<$T> = (0..n + 3).map(|i| mk(i + 1)).collect();
            for len in 0..=n + 3 {
                if res.is_err() {
                    break;
                }
                match guarded(|| <$V<$T>>::from_slice(&src[..len])) {
                    Err(p) => res = conv_err("panic", "conversion", format!("from_slice of a {}-element slice panicked: {}", len, p)),
                    Ok(got) => {
                        for i in 0..n {
                            let want = if i < len { src[i] } else { <$T>::default() };
                            if res.is_ok() && *got.at(i) != want {
                                res = conv_err("wrong_value", "element_order", format!("from_slice of a {}-element slice {:?}: field {} = {:?}, expected {:?}", len, &src[..len], i, got.at(i), want));
                            }
                        }
                    }
                }
            }
            ConvOut { api: format!("{}::as_slice/as_mut_slice/from_slice", stringify!($V)), result: res, sample: format!("{}<{}> views and from_slice round trip", stringify!($V), stringify!($T)) }
        }};
    }
    Some(match variant {
        0 => plain!(Vec2, u8, |i: usize| i as u8),
        1 => plain!(Vec3, u8, |i: usize| (3 * i) as u8),
        2 => plain!(Vec4, u64, |i: usize| 1000 + i as u64),
        3 => plain!(Vec3, f32, |i: usize| i as f32 * 0.5),
        4 => plain!(Rgba, u8, |i: usize| 10 + i as u8),
        5 => plain!(Rgb, bool, |i: usize| i % 2 == 0),
        6 => plain!(Vec8, u16, |i: usize| 100 + i as u16),
        7 => plain!(Vec16, u8, |i: usize| i as u8),
        8 => plain!(Vec32, u32, |i: usize| i as u32),
        9 => plain!(Vec64, u8, |i: usize| i as u8),
        10 => plain!(Extent2, f64, |i: usize| i as f64),
        11 => plain!(Extent3, u16, |i: usize| i as u16),
        12 => plain!(Uv, f32, |i: usize| i as f32),
        13 => plain!(Uvw, u8, |i: usize| i as u8),
        _ => return None,
    })
}

fn view_cases() -> Vec<(usize, usize, usize)> {
    let mut v = Vec::new();
    for kix in 0..13 {
        for variant in 0..VIEW_VARIANTS {
            v.push((0, kix, variant));
        }
    }
    for m in 0..6 {
        for variant in 0..4 {
            v.push((1, m, variant));
        }
    }
    for variant in 0..14 {
        v.push((2, 0, variant));
    }
    v
}

fn run_view(s: &mut Sub, cfg: &Config, cases: &[(usize, usize, usize)], i: u64) {
    let (fam, a, variant) = cases[i as usize];
    let out = match fam {
        0 => by_kind!(a, views_kind(variant)),
        1 => match a {
            0 => mview_r2(variant),
            1 => mview_c2(variant),
            2 => mview_r3(variant),
            3 => mview_c3(variant),
            4 => mview_r4(variant),
            _ => mview_c4(variant),
        },
        _ => views_plain(variant),
    };
    let Some(out) = out else { return };
    s.saw(&out.api);
    match out.result {
        Ok(()) => {
            s.held_enumerated(true);
            s.sample(|| out.sample.clone());
        }
        Err((class, what, detail)) => {
            let ty = if fam == 2 { "plain" } else { "Own" };
            let v = violation(PROP, s, &out.api, ty, class, what, format!("{}: {}", out.api, detail), cfg.case_seed(), i);
            s.violated(v);
        }
    }
    ledger_take_errors();
}

// ---------------------------------------------------------------------------------------------

fn main() {
    let mut cfg = Config::from_args(PROP);
    if cfg.tool == "miri" || cfg.tool == "memcheck" {
        cfg.threads = 1;
        RAW_MEMORY.store(true, std::sync::atomic::Ordering::Relaxed);
    }
    // reduced workload under the interpreter only
    let sanit = cfg.tool == "miri";
    let mut rep = Report::new(cfg.clone());

    // --- iterator histories (enumerated / covering)
    {
        let jobs = build_jobs(&cfg);
        let rule = format!(
            "tool={}: consuming-iterator histories on vectors of the ownership-tracking element Own: for the 10 kinds of dimension 2,3,4,8 every pull sequence over {{next, next_back}} of length 0..=N+2 (so pulls past exhaustion are included), each followed by dropping the iterator at that moment, under two policies (the harness keeps / immediately drops what it receives), observers Debug/Hash/== after every pull; for Vec16/32/64 the covering set 'k pulls from one end then the other end to exhaustion and beyond', k=0..N, both orders, cut at every prefix; after every step: vek's (start,end) cursors through the hook == model, len == size_hint == remaining, ledger == model, observers read only ids in [start,end); {} histories; distinct by hash of (kind, pulls, policy); non-trivial = pulls from both ends or a pull past exhaustion",
            cfg.tool,
            jobs.len()
        );
        let floor = if sanit { 50 } else { jobs.len() as u64 / 2 };
        let mut proto = Sub::new("iter_histories", &rule).with_floor(floor);
        if !sanit {
            for (k, _) in KINDS.iter() {
                proto.required.push(format!("{}::IntoIter::next", k.to_lowercase()));
                proto.required.push(format!("{}::IntoIter::next_back", k.to_lowercase()));
                proto.required.push(format!("{}::IntoIter::fmt(Debug)", k.to_lowercase()));
                proto.required.push(format!("{}::IntoIter::hash", k.to_lowercase()));
                proto.required.push(format!("{}::IntoIter::eq", k.to_lowercase()));
                proto.required.push(format!("states_complete:{}", k));
            }
        }
        let wanted = cfg.wants("iter_histories");
        let mut s = run_cases(&cfg, proto, jobs.len() as u64, |s, i| run_enumerated(s, &cfg, &jobs, i));
        if wanted {
            // what the hook saw: distinct (front, back) states and (state, end pulled) transitions
            let st = STATES.lock().unwrap().clone().unwrap_or_default();
            let tr = TRANS.lock().unwrap().clone().unwrap_or_default();
            let mut per_kind = Vec::new();
            for (kix, &(k, n)) in KINDS.iter().enumerate() {
                let ns = st.iter().filter(|x| (**x >> 16) as usize == kix).count();
                let nt = tr.iter().filter(|x| (**x >> 17) as usize == kix).count();
                let closed = (n + 1) * (n + 2) / 2;
                per_kind.push((k.to_string(), Json::obj(vec![("states_seen", Json::i(ns as i64)), ("states_reachable", Json::i(closed as i64)), ("transitions_seen", Json::i(nt as i64)), ("transitions_possible", Json::i(2 * closed as i64))])));
                if ns == closed && nt == 2 * closed {
                    s.saw(&format!("states_complete:{}", k));
                }
            }
            s.extra.push(("states".into(), Json::i(st.len() as i64)));
            s.extra.push(("transitions".into(), Json::i(tr.len() as i64)));
            s.extra.push(("iterator_state_coverage_by_kind".into(), Json::Obj(per_kind)));
        }
        rep.push(s);
    }

    // --- random interleavings
    {
        let n = if sanit { cfg.n(60, 400) } else if cfg.tool == "memcheck" { cfg.n(8_000, 8_000) } else { cfg.n(40_000, 2_000_000) };
        let rule = format!("tool={}: {} random histories (length <= 2N+6) over next / next_back / nth(k) / nth_back(k) / Debug / Hash / == self / == a second partially consumed iterator / harness drops a yielded element, random kind among the 13{}, ended by dropping the iterator; same per-step monitors as iter_histories; distinct by hash of (kind, ops); non-trivial = at least two pulls", cfg.tool, n, if sanit { " (dimension <= 8 under the sanitizer)" } else { "" });
        let proto = Sub::new("iter_random", &rule).with_floor(n / 3);
        let s = run_cases(&cfg, proto, n, |s, i| run_random(s, &cfg, i, sanit && !cfg.thorough()));
        rep.push(s);
    }

    // --- histories ended by a consuming adaptor (incl. a callback that unwinds)
    {
        let jobs = consume_jobs(&cfg);
        let rule = format!(
            "tool={}: {} histories: a prefix of front/back pulls (every (front,back) state for dimensions 2..4, nine spread states for 8..64; the harness alternately keeps or drops what it received), then the iterator is handed BY VALUE to a consumer: fold, fold keeping the elements, for_each, rfold, rev().for_each, count, last, by_ref().try_fold breaking on the k-th element (then drop), a for loop, collect::<Vec>, map().sum, max_by_key, by_ref().rev().take(k) (then drop); for the consumers with a callback the callback also PANICS on the k-th element it receives (k in 0, 1, middle, last, none) while owning that element, and the unwinding drops the iterator at that moment. Checked: the callback receives exactly the remaining ids in order (reversed for the back-to-front consumers), return values (count, last, max, sum), cursors/len after the partial consumers, and at the end the ledger shows every element dropped exactly once (no double drop, no leak, no garbage); under Miri/memcheck a double drop is a real double free; non-trivial = at least one element remained; distinct by (kind, state, consumer, k, policy)",
            cfg.tool,
            jobs.len()
        );
        let floor = if sanit { 40 } else { jobs.len() as u64 / 2 };
        let mut proto = Sub::new("iter_consume", &rule).with_floor(floor);
        proto.exhaustive = true;
        if !sanit {
            for m in 1..FIN_NAMES.len() {
                proto.required.push(format!("consumer:{}", FIN_NAMES[m]));
            }
            proto.required.push("consumer callback unwinds".into());
        }
        let s = run_cases(&cfg, proto, jobs.len() as u64, |s, i| run_consume(s, &cfg, &jobs, i));
        rep.push(s);
    }

    // --- conversions
    {
        let cases = conv_cases();
        let mut proto = Sub::new("conversions", &format!("tool={}: every conversion x every container, enumerated completely ({} cases): From<[T;N]>, into_array, into_tuple, From<tuple>, from_iter with sources of 0..N+2 elements, into_iter pulled to exhaustion from the front / from the back / k from the front then the rest from the back, map, map2, zip, clone for the 13 vector kinds; into_/from_{{row,col}}_array(s) for the 6 matrix types; Own elements: documented position of every id, no clone/drop/observe by a pure move, every element dropped exactly once at the end", cfg.tool, cases.len())).with_floor(cases.len() as u64 * 9 / 10);
        proto.exhaustive = true;
        let s = run_cases(&cfg, proto, cases.len() as u64, |s, i| run_conv(s, &cfg, &cases, i));
        rep.push(s);
    }

    // --- slice views
    {
        let cases = view_cases();
        let mut proto = Sub::new("slice_views", &format!("tool={}: every view x every container, enumerated completely ({} cases): as_slice, Deref, AsRef, Borrow, iter, &v, as_mut_slice, iter_mut, &mut v, AsMut/BorrowMut, size_of for the 13 vector kinds on Own; as_{{row,col}}_slice (+mut) for the 6 matrix types on Own; as_slice/as_mut_slice/from_slice on plain u8/u16/u32/u64/f32/f64/bool vectors: N entries, entry i is field i at the same address, the view starts at the value's own address, writes land in field i and drop the replaced element once", cfg.tool, cases.len())).with_floor(cases.len() as u64 * 9 / 10);
        proto.exhaustive = true;
        let s = run_cases(&cfg, proto, cases.len() as u64, |s, i| run_view(s, &cfg, &cases, i));
        rep.push(s);
    }
    let _ = mix2(0, 0);
    std::process::exit(rep.finish());
}

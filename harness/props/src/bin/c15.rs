//! C15 — Bezier extrema, bounding boxes, closest-point search and length bound the curve.
//!
//! Exact tier (`Q`): every coordinate function of a curve is *constructed* by integrating a chosen
//! derivative (identically zero, constant, linear with the root below / at 0 / inside / at 1 /
//! above the unit interval, double rational root, two rational roots in every inside/outside
//! combination, no real root), so the true extrema over [0,1] are known exactly
//! ({0,1} united with the derivative's roots in [0,1]).  vek's `*_inflection(s)`, `min_*`, `max_*`,
//! `*_bounds`, `aabr`, `aabb` run on these curves and are judged against the property statement.
//! Float tier (`f64`): random curves against a 4097-point parameter grid with a derived tolerance.
//! Search: `binary_search_point(_by_steps)` on `Q` (exact) and `f64`.  Length: `f64`.

use monitors::gen::{small_q, small_q_nonzero};
use monitors::prng::{Rng, H64};
use monitors::report::{guarded, run_cases, take_poison, Config, Report, Sub, Violation};
use monitors::{Bf, Q};
use num_traits::real::Real;
use props::*;
use std::collections::HashMap;
use std::fmt::Debug;
use std::ops::{Add, Mul, Sub as OpSub};
use std::sync::Mutex;
use std::thread::ThreadId;
use std::time::{Duration, Instant};
use vek::bezier::repr_c::{CubicBezier2, CubicBezier3, QuadraticBezier2, QuadraticBezier3};
use vek::ops::{Lerp, MulAdd};
use vek::vec::repr_c::{Vec2, Vec3};

const PROP: &str = "C15";
const AXES: [&str; 3] = ["x", "y", "z"];

// ------------------------------------------------------------------ element / curve abstraction

trait El: Real + MulAdd<Self, Self, Output = Self> + Lerp<Self, Output = Self> + From<u16> + Debug {}
impl<T: Real + MulAdd<T, T, Output = T> + Lerp<T, Output = T> + From<u16> + Debug> El for T {}

/// raw-field view of the four curve types
trait Cv<T: Copy>: Copy {
    const DEG: usize;
    const DIM: usize;
    const NAME: &'static str;
    /// "inflection" for quadratic curves, "inflections" for cubic ones
    const INFL: &'static str;
    type P: VecX<T> + Copy;
    fn build(f: &mut dyn FnMut(usize, usize) -> T) -> Self;
    fn point(&self, k: usize) -> Self::P;
}

/// the vek entry points under observation
trait CvE<T: El>: Cv<T> {
    fn v_infl(self, ax: usize) -> Vec<T>;
    fn v_min(self, ax: usize) -> T;
    fn v_max(self, ax: usize) -> T;
    fn v_bounds(self, ax: usize) -> (T, T);
    fn v_aabr(self) -> [Vec<T>; 2];
    fn v_aabb(self) -> Option<[Vec<T>; 2]>;
    fn v_search_steps(self, p: &[T], steps: u16, eps: T) -> (T, Vec<T>);
    fn v_search(self, p: &[T], coarse: Vec<(T, Vec<T>)>, h: T, eps: T) -> (T, Vec<T>);
    fn v_length(self, steps: u16) -> T;
}

fn norm_quadratic<T>(o: Option<T>) -> Vec<T> {
    o.into_iter().collect()
}
fn norm_cubic<T>(o: Option<(T, Option<T>)>) -> Vec<T> {
    match o {
        None => vec![],
        Some((a, None)) => vec![a],
        Some((a, Some(b))) => vec![a, b],
    }
}
macro_rules! aabb_of {
    (2, $s:expr) => {
        None
    };
    (3, $s:expr) => {{
        let b = $s.aabb();
        Some([b.min.to_vec(), b.max.to_vec()])
    }};
}

macro_rules! impl_cv {
    ($B:ident, $name:expr, $deg:expr, $dim:tt, $P:ident, $infl:expr, $norm:ident, [$($f:ident),+],
     [$(($ax:expr, $xi:ident, $xmin:ident, $xmax:ident, $xb:ident)),+]) => {
        impl<T: Copy> Cv<T> for $B<T> {
            const DEG: usize = $deg;
            const DIM: usize = $dim;
            const NAME: &'static str = $name;
            const INFL: &'static str = $infl;
            type P = $P<T>;
            fn build(f: &mut dyn FnMut(usize, usize) -> T) -> Self {
                let mut ks = 0usize..;
                $B {
                    $($f: {
                        let k = ks.next().unwrap();
                        <$P<T> as VecX<T>>::from_fn(|d| f(k, d))
                    }),+
                }
            }
            fn point(&self, k: usize) -> $P<T> {
                let a = [$(self.$f),+];
                a[k]
            }
        }
        impl<T: El> CvE<T> for $B<T> {
            fn v_infl(self, ax: usize) -> Vec<T> {
                match ax { $($ax => $norm(self.$xi()),)+ _ => unreachable!() }
            }
            fn v_min(self, ax: usize) -> T {
                match ax { $($ax => self.$xmin(),)+ _ => unreachable!() }
            }
            fn v_max(self, ax: usize) -> T {
                match ax { $($ax => self.$xmax(),)+ _ => unreachable!() }
            }
            fn v_bounds(self, ax: usize) -> (T, T) {
                match ax { $($ax => self.$xb(),)+ _ => unreachable!() }
            }
            fn v_aabr(self) -> [Vec<T>; 2] {
                let b = self.aabr();
                [b.min.to_vec(), b.max.to_vec()]
            }
            fn v_aabb(self) -> Option<[Vec<T>; 2]> {
                aabb_of!($dim, self)
            }
            fn v_search_steps(self, p: &[T], steps: u16, eps: T) -> (T, Vec<T>) {
                let p = <$P<T> as VecX<T>>::from_fn(|d| p[d]);
                let (t, q) = self.binary_search_point_by_steps(p, steps, eps);
                (t, q.to_vec())
            }
            fn v_search(self, p: &[T], coarse: Vec<(T, Vec<T>)>, h: T, eps: T) -> (T, Vec<T>) {
                let p = <$P<T> as VecX<T>>::from_fn(|d| p[d]);
                let it = coarse.into_iter().map(|(t, q)| (t, <$P<T> as VecX<T>>::from_fn(|d| q[d])));
                let (t, q) = self.binary_search_point(p, it, h, eps);
                (t, q.to_vec())
            }
            fn v_length(self, steps: u16) -> T {
                self.length_by_discretization(steps)
            }
        }
    };
}
impl_cv!(QuadraticBezier2, "QuadraticBezier2", 2, 2, Vec2, "inflection", norm_quadratic, [start, ctrl, end],
    [(0, x_inflection, min_x, max_x, x_bounds), (1, y_inflection, min_y, max_y, y_bounds)]);
impl_cv!(QuadraticBezier3, "QuadraticBezier3", 2, 3, Vec3, "inflection", norm_quadratic, [start, ctrl, end],
    [(0, x_inflection, min_x, max_x, x_bounds), (1, y_inflection, min_y, max_y, y_bounds), (2, z_inflection, min_z, max_z, z_bounds)]);
impl_cv!(CubicBezier2, "CubicBezier2", 3, 2, Vec2, "inflections", norm_cubic, [start, ctrl0, ctrl1, end],
    [(0, x_inflections, min_x, max_x, x_bounds), (1, y_inflections, min_y, max_y, y_bounds)]);
impl_cv!(CubicBezier3, "CubicBezier3", 3, 3, Vec3, "inflections", norm_cubic, [start, ctrl0, ctrl1, end],
    [(0, x_inflections, min_x, max_x, x_bounds), (1, y_inflections, min_y, max_y, y_bounds), (2, z_inflections, min_z, max_z, z_bounds)]);

const CURVES: [(&str, usize, &str); 4] = [("QuadraticBezier2", 2, "inflection"), ("QuadraticBezier3", 3, "inflection"), ("CubicBezier2", 2, "inflections"), ("CubicBezier3", 3, "inflections")];

// ------------------------------------------------------------------ the oracle

trait Ring: Copy + Add<Output = Self> + OpSub<Output = Self> + Mul<Output = Self> + From<i32> {}
impl<T: Copy + Add<Output = T> + OpSub<Output = T> + Mul<Output = T> + From<i32>> Ring for T {}

fn binom(n: usize, k: usize) -> i32 {
    const TRI: [[i32; 4]; 4] = [[1, 0, 0, 0], [1, 1, 0, 0], [1, 2, 1, 0], [1, 3, 3, 1]];
    TRI[n][k]
}
/// one coordinate of the Bernstein form, from the definition
fn bern1<T: Ring>(ctrl: &[T], t: T) -> T {
    let n = ctrl.len() - 1;
    let s = T::from(1) - t;
    let mut out = T::from(0);
    for (k, p) in ctrl.iter().enumerate() {
        let mut w = T::from(binom(n, k));
        for _ in 0..(n - k) {
            w = w * s;
        }
        for _ in 0..k {
            w = w * t;
        }
        out = out + w * *p;
    }
    out
}
fn bern<T: Ring>(pts: &[Vec<T>], t: T) -> Vec<T> {
    let dim = pts[0].len();
    (0..dim).map(|d| bern1(&pts.iter().map(|p| p[d]).collect::<Vec<T>>(), t)).collect()
}
fn dist2<T: Ring>(a: &[T], b: &[T]) -> T {
    let mut s = T::from(0);
    for d in 0..a.len() {
        let e = a[d] - b[d];
        s = s + e * e;
    }
    s
}

/// accumulate the verdict of one case that may fail in several entry points
fn conclude(sub: &mut Sub, hash: u64, nontrivial: bool, mut fails: Vec<Violation>) {
    if fails.is_empty() {
        sub.held(hash, nontrivial);
        return;
    }
    let first = fails.remove(0);
    sub.violated(first);
    // a violated case is conclusive: it counts towards the distinct non-trivial conclusive cases
    if nontrivial {
        sub.nontrivial += 1;
        sub.distinct.insert(hash);
    }
    for v in fails {
        sub.add_violation(v);
    }
}

// ------------------------------------------------------------------ exact tier: coordinate functions built from their derivative

#[derive(Clone, Copy, PartialEq, Debug)]
enum Loc {
    Below,
    Zero,
    In,
    One,
    Above,
}
const LOCS: [Loc; 5] = [Loc::Below, Loc::Zero, Loc::In, Loc::One, Loc::Above];
fn loc_of(r: Q) -> Loc {
    if r < Q::ZERO {
        Loc::Below
    } else if r == Q::ZERO {
        Loc::Zero
    } else if r < Q::ONE {
        Loc::In
    } else if r == Q::ONE {
        Loc::One
    } else {
        Loc::Above
    }
}
fn loc_name(l: Loc) -> &'static str {
    match l {
        Loc::Below => "below",
        Loc::Zero => "at0",
        Loc::In => "inside",
        Loc::One => "at1",
        Loc::Above => "above",
    }
}
fn gen_at(rng: &mut Rng, l: Loc) -> Q {
    match l {
        Loc::Below => Q::frac(-rng.range_i64(1, 8), rng.range_i64(1, 4)),
        Loc::Zero => Q::ZERO,
        Loc::In => {
            let d = rng.range_i64(2, 8);
            Q::frac(rng.range_i64(1, d - 1), d)
        }
        Loc::One => Q::ONE,
        Loc::Above => Q::ONE + Q::frac(rng.range_i64(1, 8), rng.range_i64(1, 4)),
    }
}

/// One coordinate function x(t) = pc0 + pc1 t + pc2 t^2 + pc3 t^3 with everything the oracle
/// knows about it.
#[derive(Clone, Debug)]
struct Axis {
    pc: [Q; 4],
    ctrl: Vec<Q>,
    /// derivative family: zero_derivative, constant_derivative, linear_derivative, double_root,
    /// two_roots, no_real_root, irrational_roots (undecidable in Q)
    family: &'static str,
    /// distinct real roots of the derivative (empty when it is constant or has none)
    roots: Vec<Q>,
    /// family plus where the roots lie relative to [0,1]
    config: String,
}
impl Axis {
    fn x(&self, t: Q) -> Q {
        self.pc[0] + t * (self.pc[1] + t * (self.pc[2] + t * self.pc[3]))
    }
    fn dx(&self, t: Q) -> Q {
        self.pc[1] + t * (Q::int(2) * self.pc[2] + t * Q::int(3) * self.pc[3])
    }
    fn decidable(&self) -> bool {
        self.family != "irrational_roots"
    }
    /// exact minimum and maximum of x over [0,1]: candidates are the end points and the
    /// derivative's roots inside the interval
    fn range(&self) -> (Q, Q) {
        let mut cand = vec![Q::ZERO, Q::ONE];
        for r in &self.roots {
            if Q::ZERO <= *r && *r <= Q::ONE {
                cand.push(*r);
            }
        }
        let vals: Vec<Q> = cand.iter().map(|t| self.x(*t)).collect();
        let mut lo = vals[0];
        let mut hi = vals[0];
        for v in vals {
            lo = lo.min_q(v);
            hi = hi.max_q(v);
        }
        (lo, hi)
    }
    fn from_pc(pc: [Q; 4], deg: usize) -> Axis {
        // Bernstein coefficients of a power-basis polynomial: P_k = sum_{i<=k} C(k,i)/C(n,i) pc_i
        let ctrl: Vec<Q> = (0..=deg)
            .map(|k| {
                let mut s = Q::ZERO;
                for i in 0..=k {
                    s = s + Q::frac(binom(k, i) as i64, binom(deg, i) as i64) * pc[i];
                }
                s
            })
            .collect();
        // derivative A t^2 + B t + C
        let (a, b, c) = (Q::int(3) * pc[3], Q::int(2) * pc[2], pc[1]);
        let (family, roots): (&'static str, Vec<Q>) = if a.is_zero() {
            if b.is_zero() {
                if c.is_zero() {
                    ("zero_derivative", vec![])
                } else {
                    ("constant_derivative", vec![])
                }
            } else {
                ("linear_derivative", vec![Q::ZERO - c / b])
            }
        } else {
            let disc = b * b - Q::int(4) * a * c;
            if disc < Q::ZERO {
                ("no_real_root", vec![])
            } else if disc.is_zero() {
                ("double_root", vec![Q::ZERO - b / (a + a)])
            } else {
                match disc.exact_sqrt() {
                    Some(s) => {
                        let mut r = vec![(Q::ZERO - b - s) / (a + a), (Q::ZERO - b + s) / (a + a)];
                        if r[1] < r[0] {
                            r.swap(0, 1);
                        }
                        ("two_roots", r)
                    }
                    None => ("irrational_roots", vec![]),
                }
            }
        };
        let mut config = family.to_string();
        for r in &roots {
            config.push('_');
            config.push_str(loc_name(loc_of(*r)));
        }
        Axis { pc, ctrl, family, roots, config }
    }
    /// the documented epsilon bands of vek's root finding (|x| <= T::epsilon() is treated as 0)
    /// are outside the judged domain
    fn in_epsilon_band(&self) -> bool {
        let (a, b, c) = (Q::int(3) * self.pc[3], Q::int(2) * self.pc[2], self.pc[1]);
        let disc = b * b - Q::int(4) * a * c;
        let band = Q::new(1, 1i128 << 40);
        [a, b, c, disc, self.pc[2]].iter().any(|v| !v.is_zero() && v.abs_q() <= band)
    }
}

fn gen_root(rng: &mut Rng) -> Q {
    let l = LOCS[rng.usize_below(5)];
    gen_at(rng, l)
}

fn gen_axis(rng: &mut Rng, deg: usize) -> Axis {
    let x0 = small_q(rng, 9, 3);
    let k = small_q_nonzero(rng, 6, 2);
    if rng.chance(1, 16) {
        // unconstrained small control points: whatever branch they fall in
        let ctrl: Vec<Q> = (0..=deg).map(|_| if rng.bool() { Q::int(rng.range_i64(-9, 9)) } else { small_q(rng, 9, 3) }).collect();
        let pc = if deg == 2 {
            [ctrl[0], Q::int(2) * (ctrl[1] - ctrl[0]), ctrl[0] - Q::int(2) * ctrl[1] + ctrl[2], Q::ZERO]
        } else {
            [
                ctrl[0],
                Q::int(3) * (ctrl[1] - ctrl[0]),
                Q::int(3) * (ctrl[2] - Q::int(2) * ctrl[1] + ctrl[0]),
                ctrl[3] - Q::int(3) * ctrl[2] + Q::int(3) * ctrl[1] - ctrl[0],
            ]
        };
        return Axis::from_pc(pc, deg);
    }
    // derivative a t^2 + b t + c
    let (a, b, c): (Q, Q, Q) = if deg == 2 {
        match rng.below(8) {
            0 => (Q::ZERO, Q::ZERO, Q::ZERO),
            1 => (Q::ZERO, Q::ZERO, k),
            _ => {
                let r = gen_root(rng);
                (Q::ZERO, k, Q::ZERO - k * r)
            }
        }
    } else {
        match rng.below(15) {
            0 => (Q::ZERO, Q::ZERO, Q::ZERO),
            1 => (Q::ZERO, Q::ZERO, k),
            2..=5 => {
                let r = gen_root(rng);
                (Q::ZERO, k, Q::ZERO - k * r)
            }
            6..=8 => {
                let r = gen_root(rng);
                (k, Q::int(-2) * k * r, k * r * r)
            }
            9..=13 => {
                let r1 = gen_root(rng);
                let mut r2 = gen_root(rng);
                while r2 == r1 {
                    r2 = gen_root(rng);
                }
                (k, Q::ZERO - k * (r1 + r2), k * r1 * r2)
            }
            _ => {
                let p = small_q(rng, 6, 4);
                let q = small_q_nonzero(rng, 4, 3);
                (k, Q::int(-2) * k * p, k * (p * p + q * q))
            }
        }
    };
    Axis::from_pc([x0, c, b / Q::int(2), a / Q::int(3)], deg)
}

struct ExactCurve {
    axes: Vec<Axis>,
    pts: Vec<Vec<Q>>,
}
fn gen_exact(rng: &mut Rng, deg: usize, dim: usize) -> ExactCurve {
    let axes: Vec<Axis> = (0..dim).map(|_| gen_axis(rng, deg)).collect();
    let pts = (0..=deg).map(|k| (0..dim).map(|d| axes[d].ctrl[k]).collect()).collect();
    ExactCurve { axes, pts }
}

fn in_unit(t: Q) -> bool {
    Q::ZERO <= t && t <= Q::ONE
}

/// inflections / min / max / bounds of one axis of one exact curve
fn extrema_exact_axis<C: CvE<Q>>(sub: &mut Sub, cfg: &Config, idx: u64, c: C, ec: &ExactCurve, ax: usize) {
    let a = &ec.axes[ax];
    let n_infl = format!("{}::{}_{}", C::NAME, AXES[ax], C::INFL);
    let n_min = format!("{}::min_{}", C::NAME, AXES[ax]);
    let n_max = format!("{}::max_{}", C::NAME, AXES[ax]);
    let n_bounds = format!("{}::{}_bounds", C::NAME, AXES[ax]);
    if !a.decidable() {
        sub.inconclusive("irrational_roots");
        return;
    }
    if a.in_epsilon_band() || take_poison().is_some() {
        sub.inconclusive("outside_domain:epsilon_band_or_generator_overflow");
        return;
    }
    // harness self-check: the Bernstein form of the constructed control points is the intended polynomial
    let probe = Q::frac(1, 3);
    if bern1(&a.ctrl, probe) != a.x(probe) {
        sub.inconclusive("generator_mismatch");
        return;
    }
    for n in [&n_infl, &n_min, &n_max, &n_bounds] {
        sub.saw(n);
    }
    // branch coverage of the constructed derivative families (reported next to the entry points)
    sub.saw(&format!("branch:{}:{}", if C::DEG == 2 { "quadratic" } else { "cubic" }, a.config));
    let r = guarded(|| (c.v_infl(ax), c.v_min(ax), c.v_max(ax), c.v_bounds(ax)));
    let ctx = format!("{} axis {}: control coordinates {:?} (x(t) = {} + {} t + {} t^2 + {} t^3, derivative family {}, derivative roots {:?})", C::NAME, AXES[ax], a.ctrl, a.pc[0], a.pc[1], a.pc[2], a.pc[3], a.config, a.roots);
    let (infl, tmin, tmax, (b0, b1)) = match r {
        Ok(x) => x,
        Err(e) => {
            let _ = take_poison();
            let v = violation(PROP, sub, &n_bounds, "Q", "panic", &format!("{}_panic", a.family), format!("{}: panicked: {}", ctx, e), cfg.case_seed(), idx);
            sub.violated(v);
            return;
        }
    };
    if let Some(p) = take_poison() {
        sub.inconclusive(&format!("poison:{}", p));
        return;
    }
    let (lo, hi) = a.range();
    let mut fails: Vec<Violation> = Vec::new();
    // (a) every reported inflection is a zero of the derivative, (b) inside the unit interval
    for tau in &infl {
        let is_zero = a.dx(*tau).is_zero();
        let failure = if !in_unit(*tau) {
            Some(if is_zero { "root_outside_unit_interval" } else { "reported_inflection_outside_unit_interval_and_not_a_derivative_zero" })
        } else if !is_zero {
            Some("reported_inflection_not_a_derivative_zero")
        } else {
            None
        };
        if let Some(f) = failure {
            let what = format!("{}_{}", a.family, f);
            let detail = format!("{}: reported inflections {:?}; {} has derivative {} there and must lie in [0,1]", ctx, infl, tau, a.dx(*tau));
            fails.push(violation(PROP, sub, &n_infl, "Q", "wrong_value", &what, detail, cfg.case_seed(), idx));
            break;
        }
    }
    // min / max parameters: in [0,1], and the coordinate there is the true extremum
    let judge = |api: &str, t: Q, want: Q, is_min: bool, fails: &mut Vec<Violation>| {
        let failure = if !in_unit(t) {
            Some(if a.dx(t).is_zero() { format!("{}_root_outside_unit_interval", a.family) } else { format!("{}_parameter_outside_unit_interval", a.family) })
        } else if a.x(t) != want {
            Some(format!("{}_{}", a.config, if is_min { "not_minimal" } else { "not_maximal" }))
        } else {
            None
        };
        if let Some(what) = failure {
            let detail = format!(
                "{}: returned {} parameter {} (coordinate there {}); the true {} of the coordinate over [0,1] is {} and the parameter must lie in [0,1]",
                ctx,
                if is_min { "minimum" } else { "maximum" },
                t,
                a.x(t),
                if is_min { "minimum" } else { "maximum" },
                want
            );
            fails.push(violation(PROP, sub, api, "Q", "wrong_value", &what, detail, cfg.case_seed(), idx));
        }
    };
    judge(&n_min, tmin, lo, true, &mut fails);
    judge(&n_max, tmax, hi, false, &mut fails);
    let before = fails.len();
    judge(&n_bounds, b0, lo, true, &mut fails);
    if fails.len() == before {
        judge(&n_bounds, b1, hi, false, &mut fails);
    }
    let _ = take_poison();
    let mut h = H64::new();
    h.s(C::NAME).u(ax as u64);
    for x in &a.ctrl {
        h.u(x.hash64());
    }
    if fails.is_empty() {
        sub.sample(|| format!("{} -> inflections {:?}, min at {}, max at {}, bounds ({}, {}); true range [{}, {}]", ctx, infl, tmin, tmax, b0, b1, lo, hi));
    }
    // non-trivial: the coordinate is not constant
    conclude(sub, h.get(), a.family != "zero_derivative", fails);
}

fn extrema_exact<C: CvE<Q>>(sub: &mut Sub, cfg: &Config, idx: u64) {
    let mut rng = Rng::for_case(&format!("extrema_exact/{}", C::NAME), cfg.case_seed(), idx);
    let ec = gen_exact(&mut rng, C::DEG, C::DIM);
    let c = C::build(&mut |k, d| ec.pts[k][d]);
    for ax in 0..C::DIM {
        extrema_exact_axis(sub, cfg, idx, c, &ec, ax);
    }
}

/// aabr / aabb of one exact curve: in curve coordinates, equal to the exact coordinate ranges
fn boxes_exact<C: CvE<Q>>(sub: &mut Sub, cfg: &Config, idx: u64) {
    let mut rng = Rng::for_case(&format!("boxes_exact/{}", C::NAME), cfg.case_seed(), idx);
    let ec = gen_exact(&mut rng, C::DEG, C::DIM);
    let c = C::build(&mut |k, d| ec.pts[k][d]);
    if ec.axes.iter().any(|a| !a.decidable()) {
        sub.inconclusive("irrational_roots");
        return;
    }
    if ec.axes.iter().any(|a| a.in_epsilon_band()) || take_poison().is_some() {
        sub.inconclusive("outside_domain:epsilon_band_or_generator_overflow");
        return;
    }
    let ranges: Vec<(Q, Q)> = ec.axes.iter().map(|a| a.range()).collect();
    let n_aabr = format!("{}::aabr", C::NAME);
    let n_aabb = format!("{}::aabb", C::NAME);
    sub.saw(&n_aabr);
    if C::DIM == 3 {
        sub.saw(&n_aabb);
    }
    let r = guarded(|| (c.v_aabr(), c.v_aabb(), (0..C::DIM).map(|ax| c.v_bounds(ax)).collect::<Vec<_>>()));
    let ctx = format!("{} control points {:?} (per-axis derivative families {:?})", C::NAME, ec.pts, ec.axes.iter().map(|a| a.config.clone()).collect::<Vec<_>>());
    let (aabr, aabb, params) = match r {
        Ok(x) => x,
        Err(e) => {
            let _ = take_poison();
            let v = violation(PROP, sub, &n_aabr, "Q", "panic", "box_panic", format!("{}: panicked: {}", ctx, e), cfg.case_seed(), idx);
            sub.violated(v);
            return;
        }
    };
    if let Some(p) = take_poison() {
        sub.inconclusive(&format!("poison:{}", p));
        return;
    }
    let mut fails = Vec::new();
    let mut judge = |api: &str, b: &[Vec<Q>; 2], dims: usize| {
        let mut wrong = Vec::new();
        for d in 0..dims {
            if b[0][d] != ranges[d].0 {
                wrong.push((d, 0));
            }
            if b[1][d] != ranges[d].1 {
                wrong.push((d, 1));
            }
        }
        if wrong.is_empty() {
            return;
        }
        // classification of the failure (labelling only): the box holds vek's extremal *parameters*,
        // or it is a coordinate box that is not tight, or it misses part of the curve
        let holds_params = wrong.iter().all(|(d, side)| b[*side][*d] == if *side == 0 { params[*d].0 } else { params[*d].1 });
        let contains = (0..dims).all(|d| b[0][d] <= ranges[d].0 && ranges[d].1 <= b[1][d]);
        let what = if holds_params {
            "box_holds_parameters"
        } else if contains {
            "box_does_not_touch_curve"
        } else {
            "box_does_not_contain_curve"
        };
        let exp_min: Vec<Q> = (0..dims).map(|d| ranges[d].0).collect();
        let exp_max: Vec<Q> = (0..dims).map(|d| ranges[d].1).collect();
        let detail = format!(
            "{}: box min = {:?}, max = {:?}; the exact coordinate ranges of the curve over [0,1] are min = {:?}, max = {:?}; vek's extremal parameters per axis are {:?}",
            ctx,
            &b[0][..dims],
            &b[1][..dims],
            exp_min,
            exp_max,
            &params[..dims]
        );
        fails.push(violation(PROP, sub, api, "Q", "wrong_value", what, detail, cfg.case_seed(), idx));
    };
    judge(&n_aabr, &aabr, 2);
    if let Some(b) = &aabb {
        judge(&n_aabb, b, 3);
    }
    let mut h = H64::new();
    h.s(C::NAME);
    for p in &ec.pts {
        for x in p {
            h.u(x.hash64());
        }
    }
    if fails.is_empty() {
        sub.sample(|| format!("{} -> aabr {:?} aabb {:?}", ctx, aabr, aabb));
    }
    // non-trivial: the curve has extent along x and along y
    let nontrivial = ranges[0].0 != ranges[0].1 && ranges[1].0 != ranges[1].1;
    conclude(sub, h.get(), nontrivial, fails);
}

// ------------------------------------------------------------------ float tier: extrema and boxes vs a parameter grid

const GRID: usize = 4096;

struct FloatCurve {
    pts: Vec<Vec<f64>>,
    scale: f64,
    kind: &'static str,
}
fn gen_float(rng: &mut Rng, deg: usize, dim: usize) -> FloatCurve {
    let sel = rng.below(24);
    let (pts, kind): (Vec<Vec<f64>>, &'static str) = if sel >= 20 && deg == 3 {
        // a cubic that is a parabola up to rounding: a degree-elevated quadratic whose thirds were
        // rounded (what `into_cubic()` or an editor's "convert to cubic" produces: the top power
        // coefficient is a few ulps, not zero), or an exactly degree-reduced cubic with one control
        // coordinate nudged by 2^-20..2^-50.  The extremum is that of the parabola; the textbook
        // quadratic formula (-b +- sqrt(b^2 - 4ac)) / 2a cancels catastrophically here
        if rng.bool() {
            let sc = *rng.pick(&[1.0, 1.0, 10.0, 0.1]);
            let q: Vec<Vec<f64>> = (0..3).map(|_| (0..dim).map(|_| (rng.f64_in(-1.0, 1.0) * 1000.0).round() / 1000.0 * sc).collect()).collect();
            let third = |a: f64, b: f64| a + (b - a) * (2.0 / 3.0);
            (
                vec![q[0].clone(), (0..dim).map(|d| third(q[0][d], q[1][d])).collect(), (0..dim).map(|d| third(q[2][d], q[1][d])).collect(), q[2].clone()],
                "elevated_quadratic",
            )
        } else {
            let mut cols: Vec<Vec<f64>> = Vec::new();
            for _ in 0..dim {
                let x0 = rng.range_i64(-6, 6);
                // not the constant coordinate: nudging that one gives a curve whose whole extent is the
                // nudge, i.e. a feature inside vek's absolute epsilon bands (not judged, see DESIGN section 7)
                let (k, m) = loop {
                    let km = (rng.range_i64(-6, 6), rng.range_i64(-6, 6));
                    if km != (0, 0) {
                        break km;
                    }
                };
                let mut col: Vec<f64> = vec![x0, x0 + k, x0 + 2 * k + m, x0 + 3 * k + 3 * m].into_iter().map(|v| v as f64).collect();
                let which = rng.usize_below(4);
                col[which] += 2f64.powi(-(rng.range_i64(20, 50) as i32)) * if rng.bool() { 1.0 } else { -1.0 };
                cols.push(col);
            }
            ((0..=deg).map(|kk| (0..dim).map(|d| cols[d][kk]).collect()).collect(), "nearly_degree_reduced")
        }
    } else if sel >= 17 {
        // a small curve far from the origin: short dyadic shape (amplitude 2^0..2^-6) translated by
        // 2^20..2^30 per axis, all exactly representable: the position of an extremum does not depend on
        // where the curve sits, but a formula that multiplies coordinates cancels catastrophically here
        let amp = 2f64.powi(-(rng.range_i64(0, 6) as i32));
        let off: Vec<f64> = (0..dim).map(|_| 2f64.powi(rng.range_i64(20, 30) as i32) * if rng.bool() { 1.0 } else { -1.0 }).collect();
        ((0..=deg).map(|_| (0..dim).map(|d| off[d] + amp * rng.range_i64(-16, 16) as f64 / 4.0).collect()).collect(), "far_from_origin")
    } else if sel < 3 {
        // (added after the round-8 / round-9 observations) the same generic curves in a small unit: every
        // coordinate times 2^-k, k = 20..28 (1e-6 .. 4e-9) -- ordinary normal numbers, nine orders of
        // magnitude above the smallest one.  Where the extrema are does not depend on the unit, and the
        // curve is judged relative to its own size.  An absolute test on a quantity that scales with the
        // *square* of the coordinates (the discriminant of the derivative) goes wrong here long before
        // any coordinate is near the type's epsilon.
        let unit = 2f64.powi(-(rng.range_i64(20, 28) as i32));
        ((0..=deg).map(|_| (0..dim).map(|_| rng.f64_in(-10.0, 10.0) * unit).collect()).collect(), "small_unit")
    } else if sel < 11 {
        ((0..=deg).map(|_| (0..dim).map(|_| rng.f64_in(-10.0, 10.0)).collect()).collect(), "uniform")
    } else if sel < 14 {
        ((0..=deg).map(|_| (0..dim).map(|_| rng.range_i64(-8, 8) as f64).collect()).collect(), "small_integers")
    } else {
        // integer control points whose top power coefficient vanishes exactly (cubic: linear
        // derivative, quadratic: constant derivative), so vek's |a| <= eps branches run in f64 too
        let mut cols: Vec<Vec<f64>> = Vec::new();
        for _ in 0..dim {
            let x0 = rng.range_i64(-6, 6);
            let k = rng.range_i64(-6, 6);
            let m = rng.range_i64(-6, 6);
            let col: Vec<i64> = if deg == 3 { vec![x0, x0 + k, x0 + 2 * k + m, x0 + 3 * k + 3 * m] } else { vec![x0, x0 + k, x0 + 2 * k] };
            cols.push(col.into_iter().map(|v| v as f64).collect());
        }
        ((0..=deg).map(|kk| (0..dim).map(|d| cols[d][kk]).collect()).collect(), "degree_reduced_integers")
    };
    let floor = if kind == "small_unit" { 0.0f64 } else { 1.0f64 };
    let scale = pts.iter().flatten().fold(floor, |m, x| m.max(x.abs()));
    FloatCurve { pts, scale, kind }
}
fn axis_ctrl(pts: &[Vec<f64>], ax: usize) -> Vec<f64> {
    pts.iter().map(|p| p[ax]).collect()
}
fn grid_range(ctrl: &[f64]) -> (f64, f64) {
    let mut lo = f64::INFINITY;
    let mut hi = f64::NEG_INFINITY;
    for i in 0..=GRID {
        let v = bern1(ctrl, i as f64 / GRID as f64);
        lo = lo.min(v);
        hi = hi.max(v);
    }
    (lo, hi)
}
/// derivative family of one float coordinate, from the oracle's own power coefficients (labelling only)
fn float_family(ctrl: &[f64]) -> &'static str {
    let (a, b, c) = if ctrl.len() == 3 {
        (0.0, 2.0 * (ctrl[0] - 2.0 * ctrl[1] + ctrl[2]), 2.0 * (ctrl[1] - ctrl[0]))
    } else {
        (3.0 * (ctrl[3] - 3.0 * ctrl[2] + 3.0 * ctrl[1] - ctrl[0]), 6.0 * (ctrl[2] - 2.0 * ctrl[1] + ctrl[0]), 3.0 * (ctrl[1] - ctrl[0]))
    };
    if a == 0.0 {
        if b == 0.0 {
            if c == 0.0 {
                "zero_derivative"
            } else {
                "constant_derivative"
            }
        } else {
            "linear_derivative"
        }
    } else {
        let disc = b * b - 4.0 * a * c;
        if disc < 0.0 {
            "no_real_root"
        } else if disc == 0.0 {
            "double_root"
        } else {
            "two_roots"
        }
    }
}
fn float_dx(ctrl: &[f64], t: f64) -> f64 {
    let n = ctrl.len() - 1;
    let diffs: Vec<f64> = (0..n).map(|k| ctrl[k + 1] - ctrl[k]).collect();
    bern1(&diffs, t) * n as f64
}

fn extrema_f64<C: CvE<f64>>(sub: &mut Sub, cfg: &Config, idx: u64) {
    let mut rng = Rng::for_case(&format!("extrema_f64/{}", C::NAME), cfg.case_seed(), idx);
    let fc = gen_float(&mut rng, C::DEG, C::DIM);
    let c = C::build(&mut |k, d| fc.pts[k][d]);
    for ax in 0..C::DIM {
        let ctrl = axis_ctrl(&fc.pts, ax);
        let n_infl = format!("{}::{}_{}", C::NAME, AXES[ax], C::INFL);
        let n_min = format!("{}::min_{}", C::NAME, AXES[ax]);
        let n_max = format!("{}::max_{}", C::NAME, AXES[ax]);
        let n_bounds = format!("{}::{}_bounds", C::NAME, AXES[ax]);
        for n in [&n_infl, &n_min, &n_max, &n_bounds] {
            sub.saw(n);
        }
        let fam = float_family(&ctrl);
        let ctx = format!("{} axis {} ({} curve): control coordinates {:?}, derivative family {}", C::NAME, AXES[ax], fc.kind, ctrl, fam);
        let r = guarded(|| (c.v_infl(ax), c.v_min(ax), c.v_max(ax), c.v_bounds(ax)));
        let (infl, tmin, tmax, (b0, b1)) = match r {
            Ok(x) => x,
            Err(e) => {
                let v = violation(PROP, sub, &n_bounds, "f64", "panic", &format!("{}_panic", fam), format!("{}: panicked: {}", ctx, e), cfg.case_seed(), idx);
                sub.violated(v);
                continue;
            }
        };
        let (lo, hi) = grid_range(&ctrl);
        let tol = 256.0 * f64::EPSILON * fc.scale;
        let mut fails = Vec::new();
        let outside = |t: f64| !(0.0 <= t && t <= 1.0);
        let is_root = |t: f64| float_dx(&ctrl, t).abs() <= 1e-9 * fc.scale * (1.0 + t.abs()).powi(2);
        for tau in &infl {
            if outside(*tau) {
                let what = format!("{}_{}", fam, if is_root(*tau) { "root_outside_unit_interval" } else { "reported_inflection_outside_unit_interval_and_not_a_derivative_zero" });
                fails.push(violation(PROP, sub, &n_infl, "f64", "wrong_value", &what, format!("{}: reported inflections {:?} must lie in [0,1]", ctx, infl), cfg.case_seed(), idx));
                break;
            }
        }
        let judge = |api: &str, t: f64, is_min: bool, fails: &mut Vec<Violation>| {
            let failure = if outside(t) {
                Some(format!("{}_{}", fam, if is_root(t) { "root_outside_unit_interval" } else { "parameter_outside_unit_interval" }))
            } else {
                let v = bern1(&ctrl, t);
                let bad = if is_min { !(v <= lo + tol) } else { !(v >= hi - tol) };
                if bad {
                    Some(format!("{}_{}", fam, if is_min { "not_minimal" } else { "not_maximal" }))
                } else {
                    None
                }
            };
            if let Some(what) = failure {
                let detail = format!(
                    "{}: returned {} parameter {} (coordinate there {}); the 4097-point grid over [0,1] has coordinate range [{}, {}], tolerance {:e}",
                    ctx,
                    if is_min { "minimum" } else { "maximum" },
                    t,
                    bern1(&ctrl, t),
                    lo,
                    hi,
                    tol
                );
                fails.push(violation(PROP, sub, api, "f64", "wrong_value", &what, detail, cfg.case_seed(), idx));
            }
        };
        judge(&n_min, tmin, true, &mut fails);
        judge(&n_max, tmax, false, &mut fails);
        let before = fails.len();
        judge(&n_bounds, b0, true, &mut fails);
        if fails.len() == before {
            judge(&n_bounds, b1, false, &mut fails);
        }
        let mut h = H64::new();
        h.s(C::NAME).u(ax as u64);
        for x in &ctrl {
            h.f(*x);
        }
        if fails.is_empty() {
            sub.sample(|| format!("{} -> inflections {:?}, min at {}, max at {}; grid range [{}, {}]", ctx, infl, tmin, tmax, lo, hi));
        }
        conclude(sub, h.get(), lo != hi, fails);
    }
}

fn boxes_f64<C: CvE<f64>>(sub: &mut Sub, cfg: &Config, idx: u64) {
    let mut rng = Rng::for_case(&format!("boxes_f64/{}", C::NAME), cfg.case_seed(), idx);
    let fc = gen_float(&mut rng, C::DEG, C::DIM);
    let c = C::build(&mut |k, d| fc.pts[k][d]);
    let n_aabr = format!("{}::aabr", C::NAME);
    let n_aabb = format!("{}::aabb", C::NAME);
    sub.saw(&n_aabr);
    if C::DIM == 3 {
        sub.saw(&n_aabb);
    }
    let ctx = format!("{} ({} curve) control points {:?}", C::NAME, fc.kind, fc.pts);
    let r = guarded(|| (c.v_aabr(), c.v_aabb(), (0..C::DIM).map(|ax| c.v_bounds(ax)).collect::<Vec<_>>()));
    let (aabr, aabb, params) = match r {
        Ok(x) => x,
        Err(e) => {
            let v = violation(PROP, sub, &n_aabr, "f64", "panic", "box_panic", format!("{}: panicked: {}", ctx, e), cfg.case_seed(), idx);
            sub.violated(v);
            return;
        }
    };
    let ranges: Vec<(f64, f64)> = (0..C::DIM).map(|ax| grid_range(&axis_ctrl(&fc.pts, ax))).collect();
    // the grid extremum is within h^2/8 * max|x''| <= 3*scale*h^2 of the true one (|x''| <= 24*scale)
    let hstep = 1.0 / GRID as f64;
    let tol = 4.0 * fc.scale * hstep * hstep + 256.0 * f64::EPSILON * fc.scale;
    let mut fails = Vec::new();
    let mut judge = |api: &str, b: &[Vec<f64>; 2], dims: usize| {
        let mut wrong = Vec::new();
        for d in 0..dims {
            if !((b[0][d] - ranges[d].0).abs() <= tol) {
                wrong.push((d, 0));
            }
            if !((b[1][d] - ranges[d].1).abs() <= tol) {
                wrong.push((d, 1));
            }
        }
        if wrong.is_empty() {
            return;
        }
        let holds_params = wrong.iter().all(|(d, side)| b[*side][*d] == if *side == 0 { params[*d].0 } else { params[*d].1 });
        let contains = (0..dims).all(|d| b[0][d] <= ranges[d].0 + tol && ranges[d].1 - tol <= b[1][d]);
        let what = if holds_params {
            "box_holds_parameters"
        } else if contains {
            "box_does_not_touch_curve"
        } else {
            "box_does_not_contain_curve"
        };
        let detail = format!(
            "{}: box min = {:?}, max = {:?}; the curve's coordinate ranges on the 4097-point grid are {:?} (tolerance {:e}); vek's extremal parameters per axis are {:?}",
            ctx,
            &b[0][..dims],
            &b[1][..dims],
            &ranges[..dims],
            tol,
            &params[..dims]
        );
        fails.push(violation(PROP, sub, api, "f64", "wrong_value", what, detail, cfg.case_seed(), idx));
    };
    judge(&n_aabr, &aabr, 2);
    if let Some(b) = &aabb {
        judge(&n_aabb, b, 3);
    }
    let mut h = H64::new();
    h.s(C::NAME);
    for x in fc.pts.iter().flatten() {
        h.f(*x);
    }
    let nontrivial = ranges[0].0 != ranges[0].1 && ranges[1].0 != ranges[1].1;
    conclude(sub, h.get(), nontrivial, fails);
}

// ------------------------------------------------------------------ in-process watchdog for the search loops
//
// `binary_search_point` contains an open-ended `while` loop.  The property promises a result, so
// a call that does not return is a violation (class `hang`), not something to sit in forever:
// every search call is registered while in flight; a watchdog thread reports a call that has
// been running for HANG_LIMIT and ends the process with the usual exit code.

struct Flight {
    since: Instant,
    sub: String,
    api: String,
    ty: &'static str,
    ctx: String,
    idx: u64,
}
static IN_FLIGHT: Mutex<Option<HashMap<ThreadId, Flight>>> = Mutex::new(None);
const HANG_LIMIT: Duration = Duration::from_secs(10);

fn watched<R>(sub: &Sub, api: &str, ty: &'static str, ctx: &str, idx: u64, f: impl FnOnce() -> R) -> R {
    let id = std::thread::current().id();
    {
        let mut g = IN_FLIGHT.lock().unwrap();
        g.get_or_insert_with(HashMap::new).insert(id, Flight { since: Instant::now(), sub: sub.name.clone(), api: api.to_string(), ty, ctx: ctx.to_string(), idx });
    }
    let r = f();
    if let Some(m) = IN_FLIGHT.lock().unwrap().as_mut() {
        m.remove(&id);
    }
    r
}

fn start_watchdog(cfg: &Config) {
    let cfg = cfg.clone();
    std::thread::spawn(move || loop {
        std::thread::sleep(Duration::from_millis(250));
        let hit = {
            let g = IN_FLIGHT.lock().unwrap();
            g.as_ref().and_then(|m| m.values().find(|f| f.since.elapsed() > HANG_LIMIT).map(|f| (f.sub.clone(), f.api.clone(), f.ty, f.ctx.clone(), f.idx)))
        };
        if let Some((sub, api, ty, ctx, idx)) = hit {
            let mut rep = Report::new(cfg.clone());
            rep.note("in-process watchdog: a vek call did not return; this document holds only that finding, the other sub-checks' results were discarded");
            let mut s = Sub::new(&sub, "watchdog report: a closest-point search call did not return within the limit");
            s.saw(&api);
            let detail = format!("{}: no result after {} s, the call is still running (the property promises a parameter and a point)", ctx, HANG_LIMIT.as_secs());
            let v = violation(PROP, &s, &api, ty, "hang", "search_does_not_terminate", detail, cfg.case_seed(), idx);
            s.violated(v);
            rep.push(s);
            std::process::exit(rep.finish());
        }
    });
}

// ------------------------------------------------------------------ closest-point search

fn search_exact<C: CvE<Q>>(sub: &mut Sub, cfg: &Config, idx: u64) {
    let mut rng = Rng::for_case(&format!("search_exact/{}", C::NAME), cfg.case_seed(), idx);
    let (deg, dim) = (C::DEG, C::DIM);
    let degenerate = rng.chance(1, 20);
    let p0: Vec<Q> = (0..dim).map(|_| small_q(&mut rng, 8, 3)).collect();
    let pts: Vec<Vec<Q>> = (0..=deg).map(|_| if degenerate { p0.clone() } else { (0..dim).map(|_| small_q(&mut rng, 8, 3)).collect() }).collect();
    let query: Vec<Q> = (0..dim).map(|_| small_q(&mut rng, 10, 3)).collect();
    let eps = Q::frac(1, *rng.pick(&[8i64, 16, 32, 64]));
    let c = C::build(&mut |k, d| pts[k][d]);
    let by_steps = rng.bool();
    let (api, coarse, got): (String, Vec<(Q, Vec<Q>)>, Result<(Q, Vec<Q>), String>);
    let setup: String;
    if by_steps {
        let steps = rng.range_i64(1, 9) as u16;
        api = format!("{}::binary_search_point_by_steps", C::NAME);
        // the coarse samples the documentation describes: t = i/steps, i in 0..steps
        coarse = (0..steps).map(|i| Q::frac(i as i64, steps as i64)).map(|t| (t, bern(&pts, t))).collect();
        setup = format!("steps = {}, epsilon = {}", steps, eps);
        let ctx = format!("control points {:?}, query {:?}, {}", pts, query, setup);
        got = watched(sub, &api, "Q", &ctx, idx, || guarded(|| c.v_search_steps(&query, steps, eps)));
    } else {
        let k = rng.usize_below(6);
        api = format!("{}::binary_search_point", C::NAME);
        coarse = (0..k)
            .map(|_| {
                let d = rng.range_i64(1, 8);
                Q::frac(rng.range_i64(0, d), d)
            })
            .map(|t| (t, bern(&pts, t)))
            .collect();
        let h = *rng.pick(&[Q::frac(1, 2), Q::frac(1, 4), Q::frac(1, 8), Q::frac(1, 3), Q::frac(1, 6)]);
        setup = format!("coarse parameters {:?}, half_interval = {}, epsilon = {}", coarse.iter().map(|x| x.0).collect::<Vec<_>>(), h, eps);
        let cc = coarse.clone();
        let ctx = format!("control points {:?}, query {:?}, {}", pts, query, setup);
        got = watched(sub, &api, "Q", &ctx, idx, || guarded(|| c.v_search(&query, cc, h, eps)));
    }
    sub.saw(&api);
    let ctx = format!("control points {:?}, query {:?}, {}", pts, query, setup);
    let (t, pt) = match got {
        Ok(x) => x,
        Err(e) => {
            let _ = take_poison();
            let v = violation(PROP, sub, &api, "Q", "panic", "search_panic", format!("{}: panicked: {}", ctx, e), cfg.case_seed(), idx);
            sub.violated(v);
            return;
        }
    };
    if let Some(p) = take_poison() {
        sub.inconclusive(&format!("poison:{}", p));
        return;
    }
    let on_curve = bern(&pts, t);
    let d = dist2(&pt, &query);
    let d_end = dist2(&pts[deg], &query);
    let worst_coarse = coarse.iter().map(|(tc, pc)| (*tc, dist2(pc, &query))).filter(|(_, dc)| d > *dc).next();
    if take_poison().is_some() {
        sub.inconclusive("poison:oracle_overflow");
        return;
    }
    let mut h = H64::new();
    h.s(&api).u(eps.hash64());
    for x in pts.iter().flatten().chain(query.iter()) {
        h.u(x.hash64());
    }
    for (tc, _) in &coarse {
        h.u(tc.hash64());
    }
    let failure = if pt != on_curve {
        Some(("returned_point_is_not_the_curve_point_at_returned_parameter", format!("returned (t, point) = ({}, {:?}) but the curve at t is {:?}", t, pt, on_curve)))
    } else if let Some((tc, dc)) = worst_coarse {
        Some(("farther_than_a_coarse_sample", format!("returned (t, point) = ({}, {:?}) at squared distance {}, but the coarse sample at t = {} is at squared distance {}", t, pt, d, tc, dc)))
    } else if d > d_end {
        Some(("farther_than_the_end_point", format!("returned (t, point) = ({}, {:?}) at squared distance {}, but the end point is at squared distance {}", t, pt, d, d_end)))
    } else {
        None
    };
    match failure {
        None => {
            sub.sample(|| format!("{} [Q]: {} -> t = {}, point {:?}, squared distance {} (end point {})", api, ctx, t, pt, d, d_end));
            sub.held(h.get(), !degenerate);
        }
        Some((what, msg)) => {
            let v = violation(PROP, sub, &api, "Q", "wrong_value", what, format!("{}: {}", ctx, msg), cfg.case_seed(), idx);
            conclude(sub, h.get(), !degenerate, vec![v]);
        }
    }
}

fn search_f64<C: CvE<f64>>(sub: &mut Sub, cfg: &Config, idx: u64) {
    let mut rng = Rng::for_case(&format!("search_f64/{}", C::NAME), cfg.case_seed(), idx);
    let (deg, dim) = (C::DEG, C::DIM);
    let pts: Vec<Vec<f64>> = (0..=deg).map(|_| (0..dim).map(|_| rng.f64_in(-10.0, 10.0)).collect()).collect();
    let query: Vec<f64> = (0..dim).map(|_| rng.f64_in(-15.0, 15.0)).collect();
    let eps = *rng.pick(&[1e-2, 1e-3, 1e-5, 1e-7]);
    let c = C::build(&mut |k, d| pts[k][d]);
    let by_steps = rng.bool();
    let (api, coarse, got): (String, Vec<(f64, Vec<f64>)>, Result<(f64, Vec<f64>), String>);
    let setup: String;
    if by_steps {
        let steps = *rng.pick(&[1u16, 2, 3, 5, 8, 16, 33, 100]);
        api = format!("{}::binary_search_point_by_steps", C::NAME);
        coarse = (0..steps).map(|i| i as f64 / steps as f64).map(|t| (t, bern(&pts, t))).collect();
        setup = format!("steps = {}, epsilon = {}", steps, eps);
        let ctx = format!("control points {:?}, query {:?}, {}", pts, query, setup);
        got = watched(sub, &api, "f64", &ctx, idx, || guarded(|| c.v_search_steps(&query, steps, eps)));
    } else {
        let k = rng.usize_below(8);
        api = format!("{}::binary_search_point", C::NAME);
        coarse = (0..k).map(|_| rng.unit_f64()).map(|t| (t, bern(&pts, t))).collect();
        let h = *rng.pick(&[0.5, 0.25, 0.1, 0.03]);
        setup = format!("coarse parameters {:?}, half_interval = {}, epsilon = {}", coarse.iter().map(|x| x.0).collect::<Vec<_>>(), h, eps);
        let cc = coarse.clone();
        let ctx = format!("control points {:?}, query {:?}, {}", pts, query, setup);
        got = watched(sub, &api, "f64", &ctx, idx, || guarded(|| c.v_search(&query, cc, h, eps)));
    }
    sub.saw(&api);
    let ctx = format!("control points {:?}, query {:?}, {}", pts, query, setup);
    let (t, pt) = match got {
        Ok(x) => x,
        Err(e) => {
            let v = violation(PROP, sub, &api, "f64", "panic", "search_panic", format!("{}: panicked: {}", ctx, e), cfg.case_seed(), idx);
            sub.violated(v);
            return;
        }
    };
    if !t.is_finite() || t.abs() > 64.0 {
        sub.inconclusive("ill_conditioned:far_extrapolation");
        return;
    }
    // |B(t)| <= 8 * 10 * max(1,|t|)^3 ; every rounding error is a small multiple of eps times that
    let scale = 80.0 * t.abs().max(1.0).powi(3) + 15.0;
    let tol_pt = 256.0 * f64::EPSILON * scale;
    let tol_d = 1024.0 * f64::EPSILON * scale * scale;
    let on_curve = bern(&pts, t);
    let d = dist2(&pt, &query);
    let d_end = dist2(&pts[deg], &query);
    let worst_coarse = coarse.iter().map(|(tc, pc)| (*tc, dist2(pc, &query))).filter(|(_, dc)| !(d <= *dc + tol_d)).next();
    let mut h = H64::new();
    h.s(&api).f(eps);
    for x in pts.iter().flatten().chain(query.iter()) {
        h.f(*x);
    }
    let failure = if (0..dim).any(|k| !((pt[k] - on_curve[k]).abs() <= tol_pt)) {
        Some(("returned_point_is_not_the_curve_point_at_returned_parameter", format!("returned (t, point) = ({}, {:?}) but the curve at t is {:?} (tolerance {:e})", t, pt, on_curve, tol_pt)))
    } else if let Some((tc, dc)) = worst_coarse {
        Some(("farther_than_a_coarse_sample", format!("returned (t, point) = ({}, {:?}) at squared distance {}, but the coarse sample at t = {} is at squared distance {}", t, pt, d, tc, dc)))
    } else if !(d <= d_end + tol_d) {
        Some(("farther_than_the_end_point", format!("returned (t, point) = ({}, {:?}) at squared distance {}, but the end point is at squared distance {}", t, pt, d, d_end)))
    } else {
        None
    };
    match failure {
        None => {
            sub.sample(|| format!("{} [f64]: {} -> t = {}, point {:?}, squared distance {}", api, ctx, t, pt, d));
            sub.held(h.get(), true);
        }
        Some((what, msg)) => {
            let v = violation(PROP, sub, &api, "f64", "wrong_value", what, format!("{}: {}", ctx, msg), cfg.case_seed(), idx);
            conclude(sub, h.get(), true, vec![v]);
        }
    }
}

// ------------------------------------------------------------------ bounded progress of the search loops
//
// `Bf` is an f64 that counts the scalar operations vek applies to it and panics once a per-case
// budget is exhausted, so "the call returned within N operations" is an observation made on logical
// steps, not on a wall clock.  A normal search costs about 60 operations per curve evaluation and
// at most a few hundred evaluations; the budget is three to four orders of magnitude above that.

const PROGRESS_BUDGET: u64 = 20_000_000;

fn search_progress<C: CvE<Bf>>(sub: &mut Sub, cfg: &Config, idx: u64) {
    let mut rng = Rng::for_case(&format!("search_progress/{}", C::NAME), cfg.case_seed(), idx);
    let (deg, dim) = (C::DEG, C::DIM);
    let degenerate = rng.chance(1, 16);
    let p0: Vec<f64> = (0..dim).map(|_| rng.f64_in(-10.0, 10.0)).collect();
    let pts: Vec<Vec<f64>> = (0..=deg).map(|_| if degenerate { p0.clone() } else { (0..dim).map(|_| rng.f64_in(-10.0, 10.0)).collect() }).collect();
    // the query: anywhere, on the curve's end point, or exactly a control point (zero distance)
    let query: Vec<f64> = match rng.below(8) {
        0 => pts[deg].clone(),
        1 => pts[0].clone(),
        _ => (0..dim).map(|_| rng.f64_in(-15.0, 15.0)).collect(),
    };
    let eps = *rng.pick(&[0.5, 1e-2, 1e-3, 1e-5, 1e-7, 1e-9]);
    let c = C::build(&mut |k, d| Bf(pts[k][d]));
    let q: Vec<Bf> = query.iter().map(|x| Bf(*x)).collect();
    let by_steps = rng.below(3) != 0;
    let (api, coarse, setup): (String, Vec<(f64, Vec<f64>)>, String);
    let got: Result<(Bf, Vec<Bf>), String>;
    if by_steps {
        // every sample count a caller can pass, the smallest ones included: 0 samples is legal
        // ("doesn't panic if coarse yields no element"), the search then starts from the end point
        let steps = *rng.pick(&[0u16, 0, 1, 1, 2, 3, 5, 8, 16, 33, 100, 1000, 65535]);
        api = format!("{}::binary_search_point_by_steps", C::NAME);
        coarse = (0..steps).map(|i| i as f64 / steps as f64).map(|t| (t, bern(&pts, t))).collect();
        setup = format!("steps = {}, epsilon = {}", steps, eps);
        Bf::begin(PROGRESS_BUDGET + 400 * steps as u64);
        got = guarded(|| c.v_search_steps(&q, steps, Bf(eps)));
    } else {
        let k = rng.usize_below(8);
        api = format!("{}::binary_search_point", C::NAME);
        coarse = (0..k).map(|_| rng.unit_f64()).map(|t| (t, bern(&pts, t))).collect();
        let h = *rng.pick(&[1.0, 0.5, 0.25, 0.1, 0.03, 1e-3]);
        setup = format!("coarse parameters {:?}, half_interval = {}, epsilon = {}", coarse.iter().map(|x| x.0).collect::<Vec<_>>(), h, eps);
        let cc: Vec<(Bf, Vec<Bf>)> = coarse.iter().map(|(t, p)| (Bf(*t), p.iter().map(|x| Bf(*x)).collect())).collect();
        Bf::begin(PROGRESS_BUDGET);
        got = guarded(|| c.v_search(&q, cc, Bf(h), Bf(eps)));
    }
    let ops = Bf::end();
    sub.saw(&api);
    let ctx = format!("control points {:?}, query {:?}, {}", pts, query, setup);
    let (t, pt) = match got {
        Ok((t, p)) => (t.0, p.iter().map(|x| x.0).collect::<Vec<f64>>()),
        Err(e) => {
            let _ = take_poison();
            let v = if e.contains("BUDGET_EXCEEDED") {
                violation(PROP, sub, &api, "Bf", "hang", "search_does_not_terminate", format!("{}: no result after {} scalar operations (an ordinary search takes 1e3..1e5): the property promises a parameter and a point", ctx, ops), cfg.case_seed(), idx)
            } else {
                violation(PROP, sub, &api, "Bf", "panic", "search_panic", format!("{}: panicked: {}", ctx, e), cfg.case_seed(), idx)
            };
            sub.violated(v);
            return;
        }
    };
    if let Some(p) = take_poison() {
        sub.inconclusive(&format!("poison:{}", p));
        return;
    }
    let mut h = H64::new();
    h.s(&api).f(eps);
    for x in pts.iter().flatten().chain(query.iter()) {
        h.f(*x);
    }
    h.u(coarse.len() as u64);
    if !t.is_finite() || t.abs() > 64.0 {
        sub.inconclusive("ill_conditioned:far_extrapolation");
        return;
    }
    let scale = 80.0 * t.abs().max(1.0).powi(3) + 15.0;
    let tol_pt = 256.0 * f64::EPSILON * scale;
    let tol_d = 1024.0 * f64::EPSILON * scale * scale;
    let on_curve = bern(&pts, t);
    let d = dist2(&pt, &query);
    let d_end = dist2(&pts[deg], &query);
    let worst_coarse = coarse.iter().map(|(tc, pc)| (*tc, dist2(pc, &query))).filter(|(_, dc)| !(d <= *dc + tol_d)).next();
    let failure = if (0..dim).any(|k| !((pt[k] - on_curve[k]).abs() <= tol_pt)) {
        Some(("returned_point_is_not_the_curve_point_at_returned_parameter", format!("returned (t, point) = ({}, {:?}) but the curve at t is {:?} (tolerance {:e})", t, pt, on_curve, tol_pt)))
    } else if let Some((tc, dc)) = worst_coarse {
        Some(("farther_than_a_coarse_sample", format!("returned (t, point) = ({}, {:?}) at squared distance {}, but the coarse sample at t = {} is at squared distance {}", t, pt, d, tc, dc)))
    } else if !(d <= d_end + tol_d) {
        Some(("farther_than_the_end_point", format!("returned (t, point) = ({}, {:?}) at squared distance {}, but the end point is at squared distance {}", t, pt, d, d_end)))
    } else {
        None
    };
    match failure {
        None => {
            sub.sample(|| format!("{} [Bf]: {} -> t = {}, point {:?} after {} scalar operations", api, ctx, t, pt, ops));
            sub.held(h.get(), !degenerate);
        }
        Some((what, msg)) => {
            let v = violation(PROP, sub, &api, "Bf", "wrong_value", what, format!("{}: {}", ctx, msg), cfg.case_seed(), idx);
            conclude(sub, h.get(), !degenerate, vec![v]);
        }
    }
}

// ------------------------------------------------------------------ length by discretization

const STEP_COUNTS: [u16; 10] = [0, 1, 3, 7, 15, 1000, 2001, 32767, 65534, 65535];

macro_rules! length_impl {
    ($fname:ident, $F:ty, $tname:expr, $relmin:expr) => {
fn $fname<C: CvE<$F>>(sub: &mut Sub, cfg: &Config, idx: u64) {
    let api = format!("{}::length_by_discretization", C::NAME);
    let mut rng = Rng::for_case(&format!("{}/{}", stringify!($fname), C::NAME), cfg.case_seed(), idx);
    let (deg, dim) = (C::DEG, C::DIM);
    let sel = rng.below(10);
    let pts: Vec<Vec<f64>> = if sel == 0 {
        // all control points equal: length 0
        let p: Vec<f64> = (0..dim).map(|_| rng.range_i64(-5, 5) as f64).collect();
        (0..=deg).map(|_| p.clone()).collect()
    } else if sel == 1 {
        // a straight segment traversed monotonically: chord == polygon == length
        let a: Vec<f64> = (0..dim).map(|_| rng.range_i64(-8, 8) as f64).collect();
        let b: Vec<f64> = (0..dim).map(|_| rng.range_i64(-8, 8) as f64).collect();
        (0..=deg).map(|k| (0..dim).map(|d| a[d] + (b[d] - a[d]) * k as f64 / deg as f64).collect()).collect()
    } else {
        (0..=deg).map(|_| (0..dim).map(|_| rng.f64_in(-10.0, 10.0)).collect()).collect()
    };
    // the coordinates the curve really holds (rounded to the element type)
    let pts: Vec<Vec<f64>> = pts.iter().map(|p| p.iter().map(|x| (*x as $F) as f64).collect()).collect();
    let c = C::build(&mut |k, d| pts[k][d] as $F);
    let chord = dist2(&pts[0], &pts[deg]).sqrt();
    let polygon: f64 = (0..deg).map(|k| dist2(&pts[k], &pts[k + 1]).sqrt()).sum();
    let ctx = format!("control points {:?} (chord {}, control polygon {})", pts, chord, polygon);
    // summing s+1 segment lengths in the element type: the recursive sum is off by at most
    // (s+1)*eps/2 relative to the sum (first-order bound), taken twice here
    let rel_for = |s: u16| ((s as f64 + 2.0) * <$F>::EPSILON as f64).max($relmin);
    // every evaluated point carries a rounding error of a few eps*scale, so a sum of s+1 segment
    // lengths is off by at most (s+1)*64*eps*scale in absolute terms (matters only near length 0)
    let scale = pts.iter().flatten().fold(1.0f64, |m, x| m.max(x.abs()));
    let abs_for = |s: u16| (s as f64 + 1.0) * 64.0 * <$F>::EPSILON as f64 * scale;
    // step counts for which `step_count + 2` does not fit in u16 are classified on their own
    let limit = |s: u16, w: &str| -> String {
        match s {
            65535 => "step_count_u16_max".to_string(),
            65534 => "step_count_u16_max_minus_1".to_string(),
            _ => w.to_string(),
        }
    };
    sub.saw(&api);
    let mut lens: Vec<Option<f64>> = Vec::new();
    let mut fails: Vec<Violation> = Vec::new();
    for s in STEP_COUNTS {
        match guarded(|| c.v_length(s)) {
            Ok(l) => lens.push(Some(l as f64)),
            Err(e) => {
                lens.push(None);
                let what = limit(s, "length_panic");
                fails.push(violation(PROP, sub, &api, $tname, "panic", &what, format!("{}: length_by_discretization({}) panicked: {}", ctx, s, e), cfg.case_seed(), idx));
            }
        }
    }
    for (i, s) in STEP_COUNTS.iter().enumerate() {
        let Some(l) = lens[i] else { continue };
        let tag = |w: &str| limit(*s, w);
        let abs = abs_for(*s);
        let rel = rel_for(*s);
        if !(l >= chord * (1.0 - rel) - abs) {
            fails.push(violation(PROP, sub, &api, $tname, "wrong_value", &tag("shorter_than_chord"), format!("{}: length_by_discretization({}) = {} is below the chord", ctx, s, l), cfg.case_seed(), idx));
        } else if !(l <= polygon * (1.0 + rel) + abs) {
            fails.push(violation(PROP, sub, &api, $tname, "wrong_value", &tag("longer_than_control_polygon"), format!("{}: length_by_discretization({}) = {} exceeds the control polygon", ctx, s, l), cfg.case_seed(), idx));
        }
        // refinement by doubling the number of segments: s -> 2s+1
        if let Some(j) = STEP_COUNTS.iter().position(|x| *x as u32 == 2 * (*s as u32) + 1) {
            if let Some(l2) = lens[j] {
                if !(l2 >= l * (1.0 - rel_for(STEP_COUNTS[j])) - abs_for(STEP_COUNTS[j])) {
                    let what = limit(STEP_COUNTS[j], "decreases_under_doubling");
                    fails.push(violation(
                        PROP,
                        sub,
                        &api,
                        $tname,
                        "wrong_value",
                        &what,
                        format!("{}: length_by_discretization({}) = {} but with twice the segments length_by_discretization({}) = {}", ctx, s, l, STEP_COUNTS[j], l2),
                        cfg.case_seed(),
                        idx,
                    ));
                }
            }
        }
    }
    // one violation per signature is enough for one case
    fails.dedup_by(|a, b| a.sig == b.sig);
    let mut h = H64::new();
    h.s(C::NAME).s($tname);
    for x in pts.iter().flatten() {
        h.f(*x);
    }
    if fails.is_empty() {
        sub.sample(|| format!("{} [{}]: {} -> lengths at step counts {:?} = {:?}", api, $tname, ctx, STEP_COUNTS, lens));
    }
    conclude(sub, h.get(), polygon > chord * (1.0 + 1e-6), fails);
}
    };
}
length_impl!(length_f64, f64, "f64", 1e-9);
length_impl!(length_f32, f32, "f32", 1e-6);

// ------------------------------------------------------------------ main

fn main() {
    let cfg = Config::from_args(PROP);
    let mut rep = Report::new(cfg.clone());

    let mut req_ext: Vec<String> = Vec::new();
    let mut req_box: Vec<String> = Vec::new();
    let mut req_search: Vec<String> = Vec::new();
    let mut req_len: Vec<String> = Vec::new();
    for (b, dim, infl) in CURVES {
        for ax in 0..dim {
            req_ext.push(format!("{}::{}_{}", b, AXES[ax], infl));
            req_ext.push(format!("{}::min_{}", b, AXES[ax]));
            req_ext.push(format!("{}::max_{}", b, AXES[ax]));
            req_ext.push(format!("{}::{}_bounds", b, AXES[ax]));
        }
        req_box.push(format!("{}::aabr", b));
        if dim == 3 {
            req_box.push(format!("{}::aabb", b));
        }
        req_search.push(format!("{}::binary_search_point_by_steps", b));
        req_search.push(format!("{}::binary_search_point", b));
        req_len.push(format!("{}::length_by_discretization", b));
    }
    // every derivative family / root-location combination the exact tier is built to reach
    let mut req_ext_exact = req_ext.clone();
    {
        let locs = ["below", "at0", "inside", "at1", "above"];
        for deg in ["quadratic", "cubic"] {
            req_ext_exact.push(format!("branch:{}:zero_derivative", deg));
            req_ext_exact.push(format!("branch:{}:constant_derivative", deg));
            for l in locs {
                req_ext_exact.push(format!("branch:{}:linear_derivative_{}", deg, l));
            }
        }
        req_ext_exact.push("branch:cubic:no_real_root".to_string());
        for (i, a) in locs.iter().enumerate() {
            req_ext_exact.push(format!("branch:cubic:double_root_{}", a));
            for (j, b) in locs.iter().enumerate() {
                // two distinct roots, sorted: equal locations only where the location is an open range
                if j > i || (j == i && (*a == "below" || *a == "inside" || *a == "above")) {
                    req_ext_exact.push(format!("branch:cubic:two_roots_{}_{}", a, b));
                }
            }
        }
    }
    let strs = |v: &Vec<String>| v.iter().map(|x| x.as_str().to_string()).collect::<Vec<String>>();
    macro_rules! four {
        ($f:ident, $T:ty, $s:expr, $i:expr) => {{
            $f::<QuadraticBezier2<$T>>($s, &cfg, $i);
            $f::<QuadraticBezier3<$T>>($s, &cfg, $i);
            $f::<CubicBezier2<$T>>($s, &cfg, $i);
            $f::<CubicBezier3<$T>>($s, &cfg, $i);
        }};
    }
    let req = |s: Sub, v: &Vec<String>| {
        let o = strs(v);
        s.require(&o.iter().map(|x| x.as_str()).collect::<Vec<_>>())
    };

    let ne = cfg.n(1_500, 150_000);
    {
        let proto = req(
            Sub::new(
                "extrema_exact",
                "exact rationals: each coordinate function is built by integrating a chosen derivative (zero; non-zero constant; linear with the root below/at 0/inside/at 1/above [0,1]; double rational root; two rational roots in all location combinations; no real root; plus 1/16 unconstrained small control points, undecidable when the roots are irrational); one case per (curve type, curve, axis): reported inflections must be exact zeros of the oracle's derivative and lie in [0,1]; min/max/bounds parameters must lie in [0,1] and the oracle's polynomial there must equal the exact extremum over {0,1} and the roots in [0,1]; non-trivial = coordinate not constant; distinct by hash of the axis's control coordinates",
            )
            // the constructed families are small rational spaces: in the thorough tier about a third
            // of the 10*ne (type, curve, axis) cases are distinct (measured 550k of 1.5M)
            .with_floor(if cfg.thorough() { ne * 2 } else { ne * 4 }),
            &req_ext_exact,
        );
        let s = run_cases(&cfg, proto, ne, |s, i| four!(extrema_exact, Q, s, i));
        rep.push(s);
    }
    {
        let proto = req(
            Sub::new(
                "boxes_exact",
                "exact rationals, same constructed curves: aabr() (and aabb() in 3D) must equal the exact per-axis coordinate range of the curve over [0,1] (contains every point, touches on each side, in curve coordinates); one case per (curve type, curve); non-trivial = the curve has extent along x and y; distinct by hash of the control points",
            )
            .with_floor(ne),
            &req_box,
        );
        let s = run_cases(&cfg, proto, ne, |s, i| four!(boxes_exact, Q, s, i));
        rep.push(s);
    }
    let nf = cfg.n(300, 20_000);
    {
        let proto = req(
            Sub::new(
                "extrema_f64",
                "f64: random curves (11/20 uniform in [-10,10], 3/20 small integers, 3/20 integer control points whose leading power coefficient vanishes exactly, 3/20 a small dyadic shape translated by 2^20..2^30 per axis) against a 4097-point parameter grid evaluated by the oracle's Bernstein form: returned parameters and inflections in [0,1], coordinate at the min (max) parameter <= (>=) every grid sample within 256*eps*scale; one case per (curve type, curve, axis); non-trivial = coordinate not constant on the grid",
            )
            .with_floor(nf * 4),
            &req_ext,
        );
        let s = run_cases(&cfg, proto, nf, |s, i| four!(extrema_f64, f64, s, i));
        rep.push(s);
    }
    {
        let proto = req(
            Sub::new(
                "boxes_f64",
                "f64, same generator: aabr()/aabb() sides must equal the grid's coordinate range within 4*scale*h^2 + 256*eps*scale (h = 1/4096: the grid extremum is within h^2/8*max|x''| of the true one); one case per (curve type, curve)",
            )
            .with_floor(nf),
            &req_box,
        );
        let s = run_cases(&cfg, proto, nf, |s, i| four!(boxes_f64, f64, s, i));
        rep.push(s);
    }
    let ns = cfg.n(1_000, 60_000);
    {
        let proto = req(
            Sub::new(
                "search_exact",
                "exact rationals: random small control points and query point; binary_search_point_by_steps (steps 1..9, epsilon in {1/8..1/64}) or binary_search_point with 0..5 coarse samples taken from the oracle's own evaluation and half_interval in {1/2,1/3,1/4,1/6,1/8}: the returned point must equal the oracle's Bernstein form at the returned parameter and be no farther (squared distance) from the query than every coarse sample and the end point; non-trivial = control points not all equal",
            )
            .with_floor(ns * 2),
            &req_search,
        );
        let s = run_cases(&cfg, proto, ns, |s, i| four!(search_exact, Q, s, i));
        rep.push(s);
    }
    {
        let proto = req(
            Sub::new(
                "search_f64",
                "f64: random curves in [-10,10], query in [-15,15], epsilon in {1e-2..1e-7}: same claims as search_exact with tolerance 256*eps*scale on points and 1024*eps*scale^2 on squared distances; result parameter beyond |t| > 64 -> inconclusive",
            )
            .with_floor(ns * 2),
            &req_search,
        );
        let s = run_cases(&cfg, proto, ns, |s, i| four!(search_f64, f64, s, i));
        rep.push(s);
    }
    {
        let proto = req(
            Sub::new(
                "search_progress",
                "bounded progress, on a budgeted f64 (Bf: every scalar operation vek performs is counted, the call is unwound once 2e7 operations are exceeded): random curves in [-10,10] (1/16 all control points equal), query anywhere / on the end point / on the start point, epsilon in {0.5..1e-9}; binary_search_point_by_steps with steps in {0, 1, 2, 3, 5, 8, 16, 33, 100, 1000, 65535} (0 samples is legal: the search starts from the end point) or binary_search_point with 0..7 coarse samples and half_interval in {1, 1/2, 1/4, 0.1, 0.03, 1e-3}: the call must return within the budget, and the result must satisfy the same claims as search_f64",
            )
            .with_floor(ns),
            &req_search,
        );
        let s = run_cases(&cfg, proto, ns, |s, i| four!(search_progress, Bf, s, i));
        rep.push(s);
    }
    let nl = cfg.n(48, 2_000);
    {
        let proto = req(
            Sub::new(
                "length_f64",
                "f64: random curves (1/10 all control points equal, 1/10 evenly spaced on a straight segment) at step counts {0,1,3,7,15,1000,2001,32767,65534,65535}: chord <= L <= control polygon within 1e-9 relative, and L(2s+1) >= L(s) within 1e-9 relative for every pair in the list (s+1 segments -> 2s+2 segments); one case per (curve type, curve); non-trivial = control polygon longer than the chord",
            )
            .with_floor(nl * 2),
            &req_len,
        );
        let s = run_cases(&cfg, proto, nl, |s, i| four!(length_f64, f64, s, i));
        rep.push(s);
    }
    {
        // the same bounds in f32 (added after seeded change C15_N): the tolerance is the first-order bound of
        // summing s+1 segment lengths in the element type, (s+2)*eps relative
        let proto = req(
            Sub::new(
                "length_f32",
                "f32: the curves and step counts of length_f64 with coordinates rounded to f32: chord <= L <= control polygon and L(2s+1) >= L(s), each within (s+2)*eps_f32 relative (bound of the recursive summation) + (s+1)*64*eps*scale absolute; one case per (curve type, curve); non-trivial = control polygon longer than the chord",
            )
            .with_floor(nl * 2),
            &req_len,
        );
        let s = run_cases(&cfg, proto, nl, |s, i| four!(length_f32, f32, s, i));
        rep.push(s);
    }
    std::process::exit(rep.finish());
}

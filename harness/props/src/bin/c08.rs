//! C08 — projection matrices map the view volume onto the canonical clip volume.
//!
//! Exact tier on `Q`: every one of the 20 projection constructors of `Mat4` (both storage
//! layouts) is run on random rational view volumes (off-centre, negative, reversed, near >< far
//! where nothing forbids it) or on field-of-view angle tokens with exact rational (cos, sin).
//! The returned matrix is read through its raw public fields and multiplied by the harness's
//! own naive product with the eight corners of the view volume; after the homogeneous divide
//! the corners must be the corners of the clip volume.  Agreement between constructors
//! (perspective = frustum of the implied symmetric planes, perspective_fov = perspective with
//! aspect = width/height, LH = RH * diag(1,1,-1,1)) is checked entry by entry.

use monitors::gen::{matvec, small_q, small_q_nonzero, small_q_pos};
use monitors::prng::{Rng, H64};
use monitors::q::{angle_from_quarter_tan, clear_angles, Angle};
use monitors::report::{guarded, run_cases, take_poison, Config, Report, Sub};
use monitors::Q;
use props::*;
use vek::FrustumPlanes;

const PROP: &str = "C08";

type M4 = [[Q; 4]; 4];

#[derive(Clone, Copy, Debug, PartialEq)]
enum Hand {
    L,
    R,
}
#[derive(Clone, Copy, Debug, PartialEq)]
enum Depth {
    ZO,
    NO,
}
use Depth::*;
use Hand::*;

const HD: [(Hand, Depth); 4] = [(L, ZO), (L, NO), (R, ZO), (R, NO)];

fn hd_suffix(h: Hand, d: Depth) -> &'static str {
    match (h, d) {
        (L, ZO) => "lh_zo",
        (L, NO) => "lh_no",
        (R, ZO) => "rh_zo",
        (R, NO) => "rh_no",
    }
}
fn h_suffix(h: Hand) -> &'static str {
    match h {
        L => "lh",
        R => "rh",
    }
}

/// the 20 constructors, per layout, behind one interface
trait Lay: MatX<Q> + Copy {
    fn ortho_wdp(p: FrustumPlanes<Q>) -> Self;
    fn ortho(h: Hand, d: Depth, p: FrustumPlanes<Q>) -> Self;
    fn frustum(h: Hand, d: Depth, p: FrustumPlanes<Q>) -> Self;
    fn persp(h: Hand, d: Depth, fov: Q, aspect: Q, n: Q, f: Q) -> Self;
    fn persp_fov(h: Hand, d: Depth, fov: Q, w: Q, hh: Q, n: Q, f: Q) -> Self;
    fn tweaked_inf(h: Hand, fov: Q, aspect: Q, n: Q, eps: Q) -> Self;
    fn inf(h: Hand, fov: Q, aspect: Q, n: Q) -> Self;
}

macro_rules! impl_lay {
    ($M:ident) => {
        impl Lay for $M<Q> {
            fn ortho_wdp(p: FrustumPlanes<Q>) -> Self {
                $M::<Q>::orthographic_without_depth_planes(p)
            }
            fn ortho(h: Hand, d: Depth, p: FrustumPlanes<Q>) -> Self {
                match (h, d) {
                    (L, ZO) => $M::<Q>::orthographic_lh_zo(p),
                    (L, NO) => $M::<Q>::orthographic_lh_no(p),
                    (R, ZO) => $M::<Q>::orthographic_rh_zo(p),
                    (R, NO) => $M::<Q>::orthographic_rh_no(p),
                }
            }
            fn frustum(h: Hand, d: Depth, p: FrustumPlanes<Q>) -> Self {
                match (h, d) {
                    (L, ZO) => $M::<Q>::frustum_lh_zo(p),
                    (L, NO) => $M::<Q>::frustum_lh_no(p),
                    (R, ZO) => $M::<Q>::frustum_rh_zo(p),
                    (R, NO) => $M::<Q>::frustum_rh_no(p),
                }
            }
            fn persp(h: Hand, d: Depth, fov: Q, aspect: Q, n: Q, f: Q) -> Self {
                match (h, d) {
                    (L, ZO) => $M::<Q>::perspective_lh_zo(fov, aspect, n, f),
                    (L, NO) => $M::<Q>::perspective_lh_no(fov, aspect, n, f),
                    (R, ZO) => $M::<Q>::perspective_rh_zo(fov, aspect, n, f),
                    (R, NO) => $M::<Q>::perspective_rh_no(fov, aspect, n, f),
                }
            }
            fn persp_fov(h: Hand, d: Depth, fov: Q, w: Q, hh: Q, n: Q, f: Q) -> Self {
                match (h, d) {
                    (L, ZO) => $M::<Q>::perspective_fov_lh_zo(fov, w, hh, n, f),
                    (L, NO) => $M::<Q>::perspective_fov_lh_no(fov, w, hh, n, f),
                    (R, ZO) => $M::<Q>::perspective_fov_rh_zo(fov, w, hh, n, f),
                    (R, NO) => $M::<Q>::perspective_fov_rh_no(fov, w, hh, n, f),
                }
            }
            fn tweaked_inf(h: Hand, fov: Q, aspect: Q, n: Q, eps: Q) -> Self {
                match h {
                    L => $M::<Q>::tweaked_infinite_perspective_lh(fov, aspect, n, eps),
                    R => $M::<Q>::tweaked_infinite_perspective_rh(fov, aspect, n, eps),
                }
            }
            fn inf(h: Hand, fov: Q, aspect: Q, n: Q) -> Self {
                match h {
                    L => $M::<Q>::infinite_perspective_lh(fov, aspect, n),
                    R => $M::<Q>::infinite_perspective_rh(fov, aspect, n),
                }
            }
        }
    };
}
impl_lay!(Rows4);
impl_lay!(Cols4);

fn raw<M: MatX<Q>>(m: &M) -> M4 {
    let mut o = [[Q::ZERO; 4]; 4];
    for (i, row) in o.iter_mut().enumerate() {
        for (j, e) in row.iter_mut().enumerate() {
            *e = m.get(i, j);
        }
    }
    o
}
fn ty<M: MatX<Q>>() -> String {
    format!("{}<Q>", M::NAME)
}

// ------------------------------------------------------------------ inputs

#[derive(Clone, Copy, Debug)]
struct Vol {
    l: Q,
    r: Q,
    b: Q,
    t: Q,
    n: Q,
    f: Q,
}
impl Vol {
    fn planes(&self) -> FrustumPlanes<Q> {
        FrustumPlanes { left: self.l, right: self.r, bottom: self.b, top: self.t, near: self.n, far: self.f }
    }
    fn offx(&self) -> bool {
        !(self.l + self.r).is_zero()
    }
    fn offy(&self) -> bool {
        !(self.b + self.t).is_zero()
    }
    fn off_centre(&self) -> bool {
        self.offx() && self.offy()
    }
    fn hash(&self, h: &mut H64) {
        for q in [self.l, self.r, self.b, self.t, self.n, self.f] {
            h.u(q.hash64());
        }
    }
}

fn gen_pair(rng: &mut Rng, sym: bool) -> (Q, Q) {
    if sym {
        // a may be negative: a reversed symmetric interval
        let a = small_q_nonzero(rng, 9, 4);
        (-a, a)
    } else {
        loop {
            let a = small_q(rng, 9, 4);
            let b = small_q(rng, 9, 4);
            if a != b && !(a + b).is_zero() {
                return (a, b);
            }
        }
    }
}

/// 70% off-centre in both axes, 10% each centred in x only / y only / both.
/// `positive_depth`: near, far > 0 (either order); otherwise any two different rationals.
fn gen_vol(rng: &mut Rng, positive_depth: bool) -> Vol {
    let mode = rng.below(10);
    let (l, r) = gen_pair(rng, mode == 0 || mode == 1);
    let (b, t) = gen_pair(rng, mode == 0 || mode == 2);
    let (n, f) = loop {
        let (n, f) = if positive_depth { (small_q_pos(rng, 9, 4), small_q_pos(rng, 9, 4)) } else { (small_q(rng, 9, 4), small_q(rng, 9, 4)) };
        if n != f {
            break (n, f);
        }
    };
    // scale extremes: the planes are lengths in the caller's unit, nothing in the statement depends
    // on that unit.  A sixth of the volumes have a window (l, r, b, t) far below the element type's
    // epsilon (a narrow long-lens tile), an eighth are a whole scene in a microscopic or huge unit
    let (mut l, mut r, mut b, mut t, mut n, mut f) = (l, r, b, t, n, f);
    match rng.below(24) {
        0..=3 => {
            let k = Q::frac(1, 1i64 << *rng.pick(&[30u32, 56, 60]));
            l = l * k; r = r * k; b = b * k; t = t * k;
        }
        4..=5 => {
            let k = Q::frac(1, 1i64 << *rng.pick(&[30u32, 56, 60]));
            l = l * k; r = r * k; b = b * k; t = t * k; n = n * k; f = f * k;
        }
        6 => {
            let k = Q::int(1i64 << 30);
            l = l * k; r = r * k; b = b * k; t = t * k; n = n * k; f = f * k;
        }
        _ => {}
    }
    Vol { l, r, b, t, n, f }
}

#[derive(Clone, Copy, Debug)]
struct Persp {
    ang: Angle,
    aspect: Q,
    width: Q,
    height: Q,
    n: Q,
    f: Q,
    /// tan(fov/2) = s/c of the registered half angle
    tan_half: Q,
    top: Q,
    right: Q,
}
impl Persp {
    fn hash(&self, h: &mut H64) {
        for q in [self.ang.token, self.width, self.height, self.n, self.f] {
            h.u(q.hash64());
        }
    }
    fn sym_planes(&self) -> Vol {
        Vol { l: -self.right, r: self.right, b: -self.top, t: self.top, n: self.n, f: self.f }
    }
    fn describe(&self) -> String {
        format!(
            "fov token={:?} (~{:.4} rad, half angle cos={:?} sin={:?}, tan={:?}) width={:?} height={:?} aspect={:?} near={:?} far={:?} (implied top={:?} right={:?})",
            self.ang.token, self.ang.approx, self.ang.c_half, self.ang.s_half, self.tan_half, self.width, self.height, self.aspect, self.n, self.f, self.top, self.right
        )
    }
}

/// fov in (0, pi): u = tan(fov/4) in (0,1); registers fov and fov/2 in the angle table of
/// this thread (clears it first).
fn gen_persp(rng: &mut Rng) -> Persp {
    clear_angles();
    let q = rng.range_i64(2, 12);
    let p = rng.range_i64(1, q - 1);
    let ang = angle_from_quarter_tan(Q::frac(p, q));
    let width = small_q_pos(rng, 9, 4);
    let height = if rng.chance(1, 10) { width } else { small_q_pos(rng, 9, 4) };
    let aspect = width / height;
    // near planes far below the element type's epsilon are legal too (a scene in tiny units)
    let n = if rng.chance(1, 8) { small_q_pos(rng, 9, 4) * Q::frac(1, 1i64 << *rng.pick(&[30u32, 55, 60])) } else { small_q_pos(rng, 9, 4) };
    let f = if rng.chance(1, 2) { n + small_q_pos(rng, 9, 4) } else { n * (Q::ONE + small_q_pos(rng, 9, 4)) };
    let tan_half = ang.s_half / ang.c_half;
    let top = n * tan_half;
    let right = top * aspect;
    Persp { ang, aspect, width, height, n, f, tan_half, top, right }
}

// ------------------------------------------------------------------ oracle: points through the matrix

struct Pt {
    p: [Q; 4],
    ex: Option<Q>,
    ey: Option<Q>,
    ez: Option<Q>,
    /// the point is in front of the viewer: w must be > 0
    front: bool,
    label: String,
}

fn zsign(h: Hand) -> Q {
    match h {
        L => Q::ONE,
        R => Q::int(-1),
    }
}
fn near_depth(d: Depth) -> Q {
    match d {
        ZO => Q::ZERO,
        NO => Q::int(-1),
    }
}

/// the eight corners of an orthographic volume
fn ortho_corners(v: &Vol, h: Hand, d: Depth) -> Vec<Pt> {
    let mut pts = Vec::new();
    for (dist, ez, dn) in [(v.n, near_depth(d), "near"), (v.f, Q::ONE, "far")] {
        for (x, ex, xn) in [(v.l, Q::int(-1), "left"), (v.r, Q::ONE, "right")] {
            for (y, ey, yn) in [(v.b, Q::int(-1), "bottom"), (v.t, Q::ONE, "top")] {
                pts.push(Pt { p: [x, y, zsign(h) * dist, Q::ONE], ex: Some(ex), ey: Some(ey), ez: Some(ez), front: false, label: format!("corner ({},{},{})", xn, yn, dn) });
            }
        }
    }
    pts
}

/// the eight corners of a frustum: near corners on the near plane, far corners scaled by far/near
fn frustum_corners(v: &Vol, h: Hand, d: Depth) -> Vec<Pt> {
    let mut pts = Vec::new();
    for (dist, ez, dn) in [(v.n, near_depth(d), "near"), (v.f, Q::ONE, "far")] {
        let k = dist / v.n;
        for (x, ex, xn) in [(v.l, Q::int(-1), "left"), (v.r, Q::ONE, "right")] {
            for (y, ey, yn) in [(v.b, Q::int(-1), "bottom"), (v.t, Q::ONE, "top")] {
                pts.push(Pt { p: [x * k, y * k, zsign(h) * dist, Q::ONE], ex: Some(ex), ey: Some(ey), ez: Some(ez), front: dist > Q::ZERO, label: format!("corner ({},{},{})", xn, yn, dn) });
            }
        }
    }
    pts
}

fn front_point(rng: &mut Rng, h: Hand) -> Pt {
    let dz = small_q_pos(rng, 9, 4);
    Pt { p: [small_q(rng, 9, 4), small_q(rng, 9, 4), zsign(h) * dz, Q::ONE], ex: None, ey: None, ez: None, front: true, label: "arbitrary point in front of the viewer".into() }
}

/// Returns the most significant failure (classification, detail) or None.  Classification
/// priority: w = 0, w <= 0 in front, depth, x/y on an axis where the volume is centred,
/// x/y on an off-centre axis — so that "off_centre_volume" is only reported when nothing
/// else is wrong with the matrix.
fn check_points(m: &M4, pts: &[Pt], offx: bool, offy: bool) -> Option<(&'static str, String)> {
    let mut worst: Option<(u8, &'static str, String)> = None;
    let mut fail = |rank: u8, what: &'static str, msg: String| {
        if worst.as_ref().map_or(true, |w| rank < w.0) {
            worst = Some((rank, what, msg));
        }
    };
    for pt in pts {
        let c = matvec(*m, pt.p);
        let w = c[3];
        if w.is_zero() {
            fail(0, "w_zero", format!("{} {:?} -> clip {:?}: w = 0", pt.label, pt.p, c));
            continue;
        }
        if pt.front && !(w > Q::ZERO) {
            fail(1, "w_not_positive_in_front", format!("{} {:?} -> clip {:?}: w must be > 0", pt.label, pt.p, c));
        }
        let ndc = [c[0] / w, c[1] / w, c[2] / w];
        let show = |e: Option<Q>| e.map_or("-".to_string(), |q| format!("{:?}", q));
        let msg = || format!("{} {:?} -> clip {:?} -> after divide {:?}, expected ({}, {}, {})", pt.label, pt.p, c, ndc, show(pt.ex), show(pt.ey), show(pt.ez));
        if let Some(ez) = pt.ez {
            if ndc[2] != ez {
                fail(2, "depth", msg());
            }
        }
        if let Some(ex) = pt.ex {
            if ndc[0] != ex {
                if offx {
                    fail(4, "off_centre_volume", msg());
                } else {
                    fail(3, "xy_on_centred_axis", msg());
                }
            }
        }
        if let Some(ey) = pt.ey {
            if ndc[1] != ey {
                if offy {
                    fail(4, "off_centre_volume", msg());
                } else {
                    fail(3, "xy_on_centred_axis", msg());
                }
            }
        }
    }
    worst.map(|w| (w.1, w.2))
}

/// run one constructor under `guarded`; a panic inside the stated domain is a violation
fn build<M: Lay>(sub: &mut Sub, cfg: &Config, idx: u64, api: &str, inputs: &dyn Fn() -> String, f: impl FnOnce() -> M) -> Option<M4> {
    sub.saw(api);
    match guarded(f) {
        Ok(m) => Some(raw(&m)),
        Err(e) => {
            let _ = take_poison();
            let v = violation(PROP, sub, api, &ty::<M>(), "panic", "panic_in_domain", format!("{}: panicked: {}", inputs(), e), cfg.case_seed(), idx);
            sub.violated(v);
            None
        }
    }
}

/// finish a case from the outcome of the point check
#[allow(clippy::too_many_arguments)]
fn conclude<M: Lay>(sub: &mut Sub, cfg: &Config, idx: u64, api: &str, inputs: &dyn Fn() -> String, m: &M4, res: Option<(&'static str, String)>, hash: u64, nontrivial: bool) {
    if let Some(p) = take_poison() {
        sub.inconclusive(&format!("poison:{}", p));
        return;
    }
    match res {
        None => {
            sub.sample(|| format!("{} [{}] {} -> {:?}: all checked points land on the clip volume", api, ty::<M>(), inputs(), m));
            sub.held(hash, nontrivial);
        }
        Some((what, detail)) => {
            let v = violation(PROP, sub, api, &ty::<M>(), "wrong_value", what, format!("{}; matrix (rows) = {:?}; {}", inputs(), m, detail), cfg.case_seed(), idx);
            sub.violated(v);
            count_conclusive(sub, hash, nontrivial);
        }
    }
}

/// a violated case is conclusive too: it counts towards "distinct non-trivial conclusive cases"
fn count_conclusive(sub: &mut Sub, hash: u64, nontrivial: bool) {
    if nontrivial {
        sub.nontrivial += 1;
        sub.distinct.insert(hash);
    }
}

fn case_hash(api: &str, lay: &str, f: impl FnOnce(&mut H64)) -> u64 {
    let mut h = H64::new();
    h.s(api).s(lay);
    f(&mut h);
    h.get()
}

// ------------------------------------------------------------------ sub-check: orthographic

fn ortho_case<M: Lay>(sub: &mut Sub, cfg: &Config, idx: u64) {
    let mut rng = Rng::for_case("ortho_corners", cfg.case_seed(), idx);
    let v = gen_vol(&mut rng, false);
    let zs = [small_q(&mut rng, 9, 4), small_q(&mut rng, 9, 4)];
    let inputs = || format!("planes {:?}", v);
    // without depth planes: x,y as usual, z passes through
    {
        let api = "Mat4::orthographic_without_depth_planes";
        if let Some(m) = build::<M>(sub, cfg, idx, api, &inputs, || M::ortho_wdp(v.planes())) {
            let mut pts = Vec::new();
            for z in zs {
                for (x, ex, xn) in [(v.l, Q::int(-1), "left"), (v.r, Q::ONE, "right")] {
                    for (y, ey, yn) in [(v.b, Q::int(-1), "bottom"), (v.t, Q::ONE, "top")] {
                        pts.push(Pt { p: [x, y, z, Q::ONE], ex: Some(ex), ey: Some(ey), ez: Some(z), front: false, label: format!("corner ({},{}) at arbitrary z", xn, yn) });
                    }
                }
            }
            let res = check_points(&m, &pts, v.offx(), v.offy());
            let h = case_hash(api, M::NAME, |h| v.hash(h));
            conclude::<M>(sub, cfg, idx, api, &inputs, &m, res, h, v.off_centre());
        }
    }
    for (h, d) in HD {
        let api = format!("Mat4::orthographic_{}", hd_suffix(h, d));
        if let Some(m) = build::<M>(sub, cfg, idx, &api, &inputs, || M::ortho(h, d, v.planes())) {
            let res = check_points(&m, &ortho_corners(&v, h, d), v.offx(), v.offy());
            let hs = case_hash(&api, M::NAME, |h| v.hash(h));
            conclude::<M>(sub, cfg, idx, &api, &inputs, &m, res, hs, v.off_centre());
        }
    }
}

// ------------------------------------------------------------------ sub-check: frustum

fn frustum_case<M: Lay>(sub: &mut Sub, cfg: &Config, idx: u64) {
    let mut rng = Rng::for_case("frustum_corners", cfg.case_seed(), idx);
    let v = gen_vol(&mut rng, true);
    let inputs = || format!("planes {:?}", v);
    for (h, d) in HD {
        let api = format!("Mat4::frustum_{}", hd_suffix(h, d));
        let extra = front_point(&mut rng, h);
        if let Some(m) = build::<M>(sub, cfg, idx, &api, &inputs, || M::frustum(h, d, v.planes())) {
            let mut pts = frustum_corners(&v, h, d);
            pts.push(extra);
            let res = check_points(&m, &pts, v.offx(), v.offy());
            let hs = case_hash(&api, M::NAME, |h| v.hash(h));
            conclude::<M>(sub, cfg, idx, &api, &inputs, &m, res, hs, v.off_centre());
        }
    }
}

// ------------------------------------------------------------------ sub-check: perspective / perspective_fov corners

fn perspective_case<M: Lay>(sub: &mut Sub, cfg: &Config, idx: u64) {
    let mut rng = Rng::for_case("perspective_corners", cfg.case_seed(), idx);
    let p = gen_persp(&mut rng);
    let v = p.sym_planes();
    let inputs = || p.describe();
    for (h, d) in HD {
        let extra = front_point(&mut rng, h);
        let api = format!("Mat4::perspective_{}", hd_suffix(h, d));
        if let Some(m) = build::<M>(sub, cfg, idx, &api, &inputs, || M::persp(h, d, p.ang.token, p.aspect, p.n, p.f)) {
            let mut pts = frustum_corners(&v, h, d);
            pts.push(extra);
            let res = check_points(&m, &pts, false, false);
            let hs = case_hash(&api, M::NAME, |h| p.hash(h));
            conclude::<M>(sub, cfg, idx, &api, &inputs, &m, res, hs, p.aspect != Q::ONE);
        }
        let extra = front_point(&mut rng, h);
        let api = format!("Mat4::perspective_fov_{}", hd_suffix(h, d));
        if let Some(m) = build::<M>(sub, cfg, idx, &api, &inputs, || M::persp_fov(h, d, p.ang.token, p.width, p.height, p.n, p.f)) {
            let mut pts = frustum_corners(&v, h, d);
            pts.push(extra);
            let res = check_points(&m, &pts, false, false);
            let hs = case_hash(&api, M::NAME, |h| p.hash(h));
            conclude::<M>(sub, cfg, idx, &api, &inputs, &m, res, hs, p.aspect != Q::ONE);
        }
    }
}

// ------------------------------------------------------------------ entry-by-entry agreement

/// first entry where `a[i][j] != b[i][j]`, plus the set of differing positions
fn diff(a: &M4, b: &M4) -> Vec<(usize, usize)> {
    let mut d = Vec::new();
    for i in 0..4 {
        for j in 0..4 {
            if a[i][j] != b[i][j] {
                d.push((i, j));
            }
        }
    }
    d
}

#[allow(clippy::too_many_arguments)]
fn conclude_agreement<M: Lay>(sub: &mut Sub, cfg: &Config, idx: u64, api: &str, inputs: &dyn Fn() -> String, what_of: &dyn Fn(&[(usize, usize)]) -> &'static str, a: &M4, a_name: &str, b: &M4, b_name: &str, hash: u64, nontrivial: bool) {
    if let Some(p) = take_poison() {
        sub.inconclusive(&format!("poison:{}", p));
        return;
    }
    let d = diff(a, b);
    if d.is_empty() {
        sub.sample(|| format!("{} [{}] {}: {} == {} entry by entry: {:?}", api, ty::<M>(), inputs(), a_name, b_name, a));
        sub.held(hash, nontrivial);
    } else {
        let (i, j) = d[0];
        let v = violation(
            PROP,
            sub,
            api,
            &ty::<M>(),
            "wrong_value",
            what_of(&d),
            format!("{}: {} = {:?} but {} = {:?}; they differ at {:?}, e.g. entry ({},{}) is {:?} vs {:?}", inputs(), a_name, a, b_name, b, d, i, j, a[i][j], b[i][j]),
            cfg.case_seed(),
            idx,
        );
        sub.violated(v);
        count_conclusive(sub, hash, nontrivial);
    }
}

fn agreement_case<M: Lay>(sub: &mut Sub, cfg: &Config, idx: u64) {
    let mut rng = Rng::for_case("perspective_agreement", cfg.case_seed(), idx);
    let p = gen_persp(&mut rng);
    let v = p.sym_planes();
    let inputs = || p.describe();
    for (h, d) in HD {
        let sfx = hd_suffix(h, d);
        let api_p = format!("Mat4::perspective_{}", sfx);
        let api_f = format!("Mat4::frustum_{}", sfx);
        let api_pf = format!("Mat4::perspective_fov_{}", sfx);
        let mp = build::<M>(sub, cfg, idx, &api_p, &inputs, || M::persp(h, d, p.ang.token, p.aspect, p.n, p.f));
        let mf = build::<M>(sub, cfg, idx, &api_f, &inputs, || M::frustum(h, d, v.planes()));
        let mpf = build::<M>(sub, cfg, idx, &api_pf, &inputs, || M::persp_fov(h, d, p.ang.token, p.width, p.height, p.n, p.f));
        let nt = p.aspect != Q::ONE;
        if let (Some(mp), Some(mf)) = (mp, mf) {
            let hs = case_hash(&format!("{}=frustum", api_p), M::NAME, |h| p.hash(h));
            conclude_agreement::<M>(sub, cfg, idx, &api_p, &inputs, &|_| "perspective_vs_frustum_of_implied_planes", &mp, &format!("perspective_{}(fov,aspect,near,far)", sfx), &mf, &format!("frustum_{}({:?})", sfx, v), hs, nt);
        }
        if let (Some(mp), Some(mpf)) = (mp, mpf) {
            let hs = case_hash(&format!("{}=perspective", api_pf), M::NAME, |h| p.hash(h));
            conclude_agreement::<M>(sub, cfg, idx, &api_pf, &inputs, &|_| "perspective_fov_vs_perspective_of_width_over_height", &mpf, &format!("perspective_fov_{}(fov,width,height,near,far)", sfx), &mp, &format!("perspective_{}(fov,width/height,near,far)", sfx), hs, nt);
        }
    }
}

// ------------------------------------------------------------------ sub-check: infinite perspective

fn gen_eps(rng: &mut Rng) -> Q {
    match rng.below(4) {
        0 => Q::ZERO,
        1 => Q::new(1, 1i128 << rng.range_i64(1, 30)),
        _ => {
            // rational in (0,1)
            let d = rng.range_i64(2, 12);
            Q::frac(rng.range_i64(1, d - 1), d)
        }
    }
}

fn infinite_case<M: Lay>(sub: &mut Sub, cfg: &Config, idx: u64) {
    let mut rng = Rng::for_case("infinite_perspective", cfg.case_seed(), idx);
    let p = gen_persp(&mut rng);
    let eps = gen_eps(&mut rng);
    // two distances beyond the near plane, d1 < d2
    let d1 = p.n + small_q_pos(&mut rng, 9, 4);
    let d2 = d1 + small_q_pos(&mut rng, 40, 2);
    let one = Q::ONE;
    let two = Q::int(2);
    for h in [L, R] {
        for tweaked in [true, false] {
            let e = if tweaked { eps } else { Q::ZERO };
            let api = if tweaked { format!("Mat4::tweaked_infinite_perspective_{}", h_suffix(h)) } else { format!("Mat4::infinite_perspective_{}", h_suffix(h)) };
            let inputs = || format!("{} epsilon={:?} probe distances {:?} < {:?}", p.describe(), e, d1, d2);
            let m = if tweaked { build::<M>(sub, cfg, idx, &api, &inputs, || M::tweaked_inf(h, p.ang.token, p.aspect, p.n, e)) } else { build::<M>(sub, cfg, idx, &api, &inputs, || M::inf(h, p.ang.token, p.aspect, p.n)) };
            let Some(m) = m else { continue };
            // closed form: depth(d) = (1-eps) - (2-eps) * near / d ; depth(near) = -1
            let depth = |d: Q| (one - e) - (two - e) * p.n / d;
            let mut pts = Vec::new();
            for (dist, dn) in [(p.n, "near"), (d1, "d1"), (d2, "d2")] {
                let k = dist / p.n;
                let ez = if dn == "near" { Q::int(-1) } else { depth(dist) };
                for (x, ex, xn) in [(-p.right, Q::int(-1), "left"), (p.right, one, "right")] {
                    for (y, ey, yn) in [(-p.top, Q::int(-1), "bottom"), (p.top, one, "top")] {
                        pts.push(Pt { p: [x * k, y * k, zsign(h) * dist, one], ex: Some(ex), ey: Some(ey), ez: Some(ez), front: true, label: format!("corner ({},{}) at distance {}", xn, yn, dn) });
                    }
                }
            }
            pts.push(front_point(&mut rng, h));
            let mut res = check_points(&m, &pts, false, false);
            if res.is_none() {
                // strictly increasing towards 1 - eps, measured on the matrix itself (centre line)
                let dz = |d: Q| {
                    let c = matvec(m, [Q::ZERO, Q::ZERO, zsign(h) * d, one]);
                    c[2] / c[3]
                };
                let (z0, z1, z2) = (dz(p.n), dz(d1), dz(d2));
                if !(z0 < z1 && z1 < z2 && z2 < one - e) {
                    res = Some(("depth_not_increasing_to_one_minus_epsilon", format!("depth at near, d1, d2 = {:?}, {:?}, {:?}; must be strictly increasing and below 1-eps = {:?}", z0, z1, z2, one - e)));
                }
            }
            let hs = case_hash(&api, M::NAME, |hh| {
                p.hash(hh);
                hh.u(e.hash64()).u(d1.hash64()).u(d2.hash64());
            });
            conclude::<M>(sub, cfg, idx, &api, &inputs, &m, res, hs, p.aspect != one);
        }
    }
}

// ------------------------------------------------------------------ sub-check: LH = RH * z-mirror

fn mirror(rh: &M4) -> M4 {
    let mut o = *rh;
    for row in o.iter_mut() {
        row[2] = -row[2];
    }
    o
}

fn mirror_case<M: Lay>(sub: &mut Sub, cfg: &Config, idx: u64) {
    let mut rng = Rng::for_case("handedness_mirror", cfg.case_seed(), idx);
    let vo = gen_vol(&mut rng, false);
    let vf = gen_vol(&mut rng, true);
    let p = gen_persp(&mut rng);
    let eps = gen_eps(&mut rng);

    // classification of a disagreement: only the off-centre terms (0,2)/(1,2), on a volume that is
    // off-centre on that axis -> "off_centre_volume"; anything else -> "mirror_entry"
    let classify = |v: Vol| {
        move |d: &[(usize, usize)]| -> &'static str {
            let only_off = d.iter().all(|&(i, j)| (i, j) == (0, 2) && v.offx() || (i, j) == (1, 2) && v.offy());
            if only_off {
                "off_centre_volume"
            } else {
                "mirror_entry"
            }
        }
    };

    for d in [ZO, NO] {
        let dn = if d == ZO { "zo" } else { "no" };
        // orthographic
        {
            let (al, ar) = (format!("Mat4::orthographic_lh_{}", dn), format!("Mat4::orthographic_rh_{}", dn));
            let inputs = || format!("planes {:?}", vo);
            let ml = build::<M>(sub, cfg, idx, &al, &inputs, || M::ortho(L, d, vo.planes()));
            let mr = build::<M>(sub, cfg, idx, &ar, &inputs, || M::ortho(R, d, vo.planes()));
            if let (Some(ml), Some(mr)) = (ml, mr) {
                let hs = case_hash(&format!("{}=mirror", al), M::NAME, |h| vo.hash(h));
                conclude_agreement::<M>(sub, cfg, idx, &al, &inputs, &classify(vo), &ml, &format!("orthographic_lh_{}", dn), &mirror(&mr), &format!("orthographic_rh_{} * diag(1,1,-1,1)", dn), hs, vo.off_centre());
            }
        }
        // frustum
        {
            let (al, ar) = (format!("Mat4::frustum_lh_{}", dn), format!("Mat4::frustum_rh_{}", dn));
            let inputs = || format!("planes {:?}", vf);
            let ml = build::<M>(sub, cfg, idx, &al, &inputs, || M::frustum(L, d, vf.planes()));
            let mr = build::<M>(sub, cfg, idx, &ar, &inputs, || M::frustum(R, d, vf.planes()));
            if let (Some(ml), Some(mr)) = (ml, mr) {
                let hs = case_hash(&format!("{}=mirror", al), M::NAME, |h| vf.hash(h));
                conclude_agreement::<M>(sub, cfg, idx, &al, &inputs, &classify(vf), &ml, &format!("frustum_lh_{}", dn), &mirror(&mr), &format!("frustum_rh_{} * diag(1,1,-1,1)", dn), hs, vf.off_centre());
            }
        }
        // perspective, perspective_fov
        {
            let inputs = || p.describe();
            let nt = p.aspect != Q::ONE;
            let (al, ar) = (format!("Mat4::perspective_lh_{}", dn), format!("Mat4::perspective_rh_{}", dn));
            let ml = build::<M>(sub, cfg, idx, &al, &inputs, || M::persp(L, d, p.ang.token, p.aspect, p.n, p.f));
            let mr = build::<M>(sub, cfg, idx, &ar, &inputs, || M::persp(R, d, p.ang.token, p.aspect, p.n, p.f));
            if let (Some(ml), Some(mr)) = (ml, mr) {
                let hs = case_hash(&format!("{}=mirror", al), M::NAME, |h| p.hash(h));
                conclude_agreement::<M>(sub, cfg, idx, &al, &inputs, &|_| "mirror_entry", &ml, &format!("perspective_lh_{}", dn), &mirror(&mr), &format!("perspective_rh_{} * diag(1,1,-1,1)", dn), hs, nt);
            }
            let (al, ar) = (format!("Mat4::perspective_fov_lh_{}", dn), format!("Mat4::perspective_fov_rh_{}", dn));
            let ml = build::<M>(sub, cfg, idx, &al, &inputs, || M::persp_fov(L, d, p.ang.token, p.width, p.height, p.n, p.f));
            let mr = build::<M>(sub, cfg, idx, &ar, &inputs, || M::persp_fov(R, d, p.ang.token, p.width, p.height, p.n, p.f));
            if let (Some(ml), Some(mr)) = (ml, mr) {
                let hs = case_hash(&format!("{}=mirror", al), M::NAME, |h| p.hash(h));
                conclude_agreement::<M>(sub, cfg, idx, &al, &inputs, &|_| "mirror_entry", &ml, &format!("perspective_fov_lh_{}", dn), &mirror(&mr), &format!("perspective_fov_rh_{} * diag(1,1,-1,1)", dn), hs, nt);
            }
        }
    }
    // infinite perspective
    {
        let inputs = || format!("{} epsilon={:?}", p.describe(), eps);
        let nt = p.aspect != Q::ONE;
        let (al, ar) = ("Mat4::tweaked_infinite_perspective_lh", "Mat4::tweaked_infinite_perspective_rh");
        let ml = build::<M>(sub, cfg, idx, al, &inputs, || M::tweaked_inf(L, p.ang.token, p.aspect, p.n, eps));
        let mr = build::<M>(sub, cfg, idx, ar, &inputs, || M::tweaked_inf(R, p.ang.token, p.aspect, p.n, eps));
        if let (Some(ml), Some(mr)) = (ml, mr) {
            let hs = case_hash("tweaked_inf=mirror", M::NAME, |h| {
                p.hash(h);
                h.u(eps.hash64());
            });
            conclude_agreement::<M>(sub, cfg, idx, al, &inputs, &|_| "mirror_entry", &ml, "tweaked_infinite_perspective_lh", &mirror(&mr), "tweaked_infinite_perspective_rh * diag(1,1,-1,1)", hs, nt);
        }
        let (al, ar) = ("Mat4::infinite_perspective_lh", "Mat4::infinite_perspective_rh");
        let ml = build::<M>(sub, cfg, idx, al, &inputs, || M::inf(L, p.ang.token, p.aspect, p.n));
        let mr = build::<M>(sub, cfg, idx, ar, &inputs, || M::inf(R, p.ang.token, p.aspect, p.n));
        if let (Some(ml), Some(mr)) = (ml, mr) {
            let hs = case_hash("inf=mirror", M::NAME, |h| p.hash(h));
            conclude_agreement::<M>(sub, cfg, idx, al, &inputs, &|_| "mirror_entry", &ml, "infinite_perspective_lh", &mirror(&mr), "infinite_perspective_rh * diag(1,1,-1,1)", hs, nt);
        }
    }
}

// ------------------------------------------------------------------ float tier

trait FLay<T>: MatX<T> + Copy {
    fn build(which: usize, pl: FrustumPlanes<T>, fov: T, aspect: T, w: T, h: T, n: T, f: T, eps: T) -> Self;
}
/// constructor table of the float tier: (name, family, hand, depth) with family 0 = ortho without
/// depth planes, 1 = ortho, 2 = frustum, 3 = perspective, 4 = perspective_fov, 5 = tweaked infinite,
/// 6 = infinite
const FCTORS: [(&str, u8, Hand, Depth); 21] = [
    ("Mat4::orthographic_without_depth_planes", 0, R, NO),
    ("Mat4::orthographic_lh_zo", 1, L, ZO),
    ("Mat4::orthographic_lh_no", 1, L, NO),
    ("Mat4::orthographic_rh_zo", 1, R, ZO),
    ("Mat4::orthographic_rh_no", 1, R, NO),
    ("Mat4::frustum_lh_zo", 2, L, ZO),
    ("Mat4::frustum_lh_no", 2, L, NO),
    ("Mat4::frustum_rh_zo", 2, R, ZO),
    ("Mat4::frustum_rh_no", 2, R, NO),
    ("Mat4::perspective_lh_zo", 3, L, ZO),
    ("Mat4::perspective_lh_no", 3, L, NO),
    ("Mat4::perspective_rh_zo", 3, R, ZO),
    ("Mat4::perspective_rh_no", 3, R, NO),
    ("Mat4::perspective_fov_lh_zo", 4, L, ZO),
    ("Mat4::perspective_fov_lh_no", 4, L, NO),
    ("Mat4::perspective_fov_rh_zo", 4, R, ZO),
    ("Mat4::perspective_fov_rh_no", 4, R, NO),
    ("Mat4::tweaked_infinite_perspective_lh", 5, L, NO),
    ("Mat4::tweaked_infinite_perspective_rh", 5, R, NO),
    ("Mat4::infinite_perspective_lh", 6, L, NO),
    ("Mat4::infinite_perspective_rh", 6, R, NO),
];
macro_rules! impl_flay {
    ($M:ident, $T:ty) => {
        impl FLay<$T> for $M<$T> {
            fn build(which: usize, pl: FrustumPlanes<$T>, fov: $T, aspect: $T, w: $T, h: $T, n: $T, f: $T, eps: $T) -> Self {
                match which {
                    0 => $M::<$T>::orthographic_without_depth_planes(pl),
                    1 => $M::<$T>::orthographic_lh_zo(pl),
                    2 => $M::<$T>::orthographic_lh_no(pl),
                    3 => $M::<$T>::orthographic_rh_zo(pl),
                    4 => $M::<$T>::orthographic_rh_no(pl),
                    5 => $M::<$T>::frustum_lh_zo(pl),
                    6 => $M::<$T>::frustum_lh_no(pl),
                    7 => $M::<$T>::frustum_rh_zo(pl),
                    8 => $M::<$T>::frustum_rh_no(pl),
                    9 => $M::<$T>::perspective_lh_zo(fov, aspect, n, f),
                    10 => $M::<$T>::perspective_lh_no(fov, aspect, n, f),
                    11 => $M::<$T>::perspective_rh_zo(fov, aspect, n, f),
                    12 => $M::<$T>::perspective_rh_no(fov, aspect, n, f),
                    13 => $M::<$T>::perspective_fov_lh_zo(fov, w, h, n, f),
                    14 => $M::<$T>::perspective_fov_lh_no(fov, w, h, n, f),
                    15 => $M::<$T>::perspective_fov_rh_zo(fov, w, h, n, f),
                    16 => $M::<$T>::perspective_fov_rh_no(fov, w, h, n, f),
                    17 => $M::<$T>::tweaked_infinite_perspective_lh(fov, aspect, n, eps),
                    18 => $M::<$T>::tweaked_infinite_perspective_rh(fov, aspect, n, eps),
                    19 => $M::<$T>::infinite_perspective_lh(fov, aspect, n),
                    _ => $M::<$T>::infinite_perspective_rh(fov, aspect, n),
                }
            }
        }
    };
}
impl_flay!(Rows4, f32);
impl_flay!(Cols4, f32);
impl_flay!(Rows4, f64);
impl_flay!(Cols4, f64);

trait Fl: Copy + std::fmt::Debug {
    const TY: &'static str;
    const EPS: f64;
    fn of(x: f64) -> Self;
    fn to64(self) -> f64;
}
impl Fl for f32 {
    const TY: &'static str = "f32";
    const EPS: f64 = f32::EPSILON as f64;
    fn of(x: f64) -> f32 {
        x as f32
    }
    fn to64(self) -> f64 {
        self as f64
    }
}
impl Fl for f64 {
    const TY: &'static str = "f64";
    const EPS: f64 = f64::EPSILON;
    fn of(x: f64) -> f64 {
        x
    }
    fn to64(self) -> f64 {
        self
    }
}

/// one float case: one random volume / field of view through all 21 constructors of one layout
fn float_case<T: Fl, M: FLay<T>>(sub: &mut Sub, cfg: &Config, idx: u64, lay: &str) {
    let mut rng = Rng::for_case(&format!("float_corners/{}", T::TY), cfg.case_seed(), idx);
    let pair = |rng: &mut Rng, a: f64| loop {
        let (x, y) = (T::of(rng.f64_in(-a, a)).to64(), T::of(rng.f64_in(-a, a)).to64());
        if (x - y).abs() > 0.05 * a {
            return (x, y);
        }
    };
    // the window in the caller's unit of length: mostly ordinary, sometimes microscopic (a power of
    // two, so the shape of the volume is unchanged bit for bit): a guard that compares a plane sum or
    // difference with an absolute epsilon misfires here
    let ws = 2f64.powi(-*rng.pick(&[0i32, 0, 0, 0, 0, 24, 30, 40]));
    let (l, r) = pair(&mut rng, 10.0);
    let (b, t) = pair(&mut rng, 10.0);
    let (l, r, b, t) = (l * ws, r * ws, b * ws, t * ws);
    let n = T::of(10f64.powf(rng.f64_in(-2.0, 1.5))).to64();
    let f = T::of(n * (1.1 + 10f64.powf(rng.f64_in(-1.0, 3.0)))).to64();
    // "no far plane": the largest finite number as the far distance (added after seeded change C08_P).  Only
    // the zero-to-one perspective families are judged there, with a near plane of at most 1: those are
    // the constructors whose unmodified formulas (far/(near-far), far*near/(near-far)) stay finite; the
    // negative-one-to-one ones form 2*far and are outside the working range at this input
    let far_max = rng.chance(1, 16);
    let (n, f) = if far_max { (T::of(n.min(1.0)).to64(), if T::EPS > 1e-10 { f32::MAX as f64 } else { f64::MAX }) } else { (n, f) };
    // field of view: a third narrow (telescopic, down to 3e-4 rad), the rest ordinary
    let fov = T::of(if rng.chance(1, 3) { 10f64.powf(rng.f64_in(-3.5, -0.5)) } else { rng.f64_in(0.1, 3.0) }).to64();
    let (w, h) = (T::of(rng.f64_in(0.2, 8.0)).to64(), T::of(rng.f64_in(0.2, 8.0)).to64());
    let aspect = T::of(w / h).to64();
    let eps = T::of(*rng.pick(&[0.0, 1e-6, 1.0 / 1024.0, 0.125])).to64();
    let pl = FrustumPlanes { left: T::of(l), right: T::of(r), bottom: T::of(b), top: T::of(t), near: T::of(n), far: T::of(f) };
    let ty = format!("{}4<{}>", lay, T::TY);
    let k = 256.0 * T::EPS;
    for (which, &(api, fam, hand, depth)) in FCTORS.iter().enumerate() {
        let inputs = || format!("planes l={:e} r={:e} b={:e} t={:e} near={:e} far={:e}; fov={:e} rad aspect={:e} (width {:e}, height {:e}) epsilon={:e}", l, r, b, t, n, f, fov, aspect, w, h, eps);
        sub.saw(api);
        if far_max && !(depth == ZO && (2..=4).contains(&fam)) {
            continue;
        }
        let m = match guarded(|| M::build(which, pl, T::of(fov), T::of(aspect), T::of(w), T::of(h), T::of(n), T::of(f), T::of(eps))) {
            Ok(m) => m,
            Err(p) => {
                let v = violation(PROP, sub, api, &ty, "panic", "panic_inside_domain", format!("{} panicked: {}", inputs(), p), cfg.case_seed(), idx);
                sub.violated(v);
                continue;
            }
        };
        let mut a = [[0.0f64; 4]; 4];
        for i in 0..4 {
            for j in 0..4 {
                a[i][j] = m.at(i, j).to64();
            }
        }
        let zs = if hand == L { 1.0 } else { -1.0 };
        let nd = if depth == ZO { 0.0 } else { -1.0 };
        // view volume of this constructor and the conditioning of its entries
        let (vl, vr, vb, vt) = if fam <= 2 {
            (l, r, b, t)
        } else {
            let top = n * (fov / 2.0).tan();
            let asp = if fam == 4 { w / h } else { aspect };
            (-top * asp, top * asp, -top, top)
        };
        let cond = 1.0 + (vl.abs() + vr.abs()) / (vr - vl).abs() + (vb.abs() + vt.abs()) / (vt - vb).abs() + if fam >= 5 { 1.0 } else { (n + f) / (f - n).abs() };
        let tol = k * cond;
        // points: (x, y, z, expected x, expected y, expected depth or NaN for "do not care")
        let mut pts: Vec<([f64; 3], [f64; 3], String)> = Vec::new();
        let dists: Vec<(f64, f64, &str)> = match fam {
            0 => vec![(n, f64::NAN, "near"), (f, f64::NAN, "far")],
            // far = MAX: the far corners leave the range of the type; the depth curve is observed at 3*near instead
            2 | 3 | 4 if far_max => vec![(n, nd, "near"), (n * 3.0, (f / (f - n)) * (1.0 - 1.0 / 3.0), "3*near")],
            1 | 2 | 3 | 4 => vec![(n, nd, "near"), (f, 1.0, "far")],
            _ => {
                let e = if fam == 5 { eps } else { 0.0 };
                let (d1, d2) = (n * 3.0, n * 40.0);
                vec![(n, -1.0, "near"), (d1, (1.0 - e) - (2.0 - e) * n / d1, "3*near"), (d2, (1.0 - e) - (2.0 - e) * n / d2, "40*near")]
            }
        };
        for (dist, ez, dn) in dists {
            let kx = if fam <= 1 { 1.0 } else { dist / n };
            for (x, ex, xn) in [(vl, -1.0, "left"), (vr, 1.0, "right")] {
                for (y, ey, yn) in [(vb, -1.0, "bottom"), (vt, 1.0, "top")] {
                    pts.push(([x * kx, y * kx, zs * dist], [ex, ey, ez], format!("corner ({},{},{})", xn, yn, dn)));
                }
            }
        }
        let mut fail: Option<(&'static str, String)> = None;
        for (p, e, label) in &pts {
            let c: Vec<f64> = (0..4).map(|i| a[i][0] * p[0] + a[i][1] * p[1] + a[i][2] * p[2] + a[i][3]).collect();
            let wv = c[3];
            if fam >= 2 && !(wv > 0.0) {
                fail = Some(("w_not_positive_in_front", format!("{} {:?} -> clip {:?}: w must be > 0", label, p, c)));
                break;
            }
            let ndc = [c[0] / wv, c[1] / wv, c[2] / wv];
            let bad_xy = !((ndc[0] - e[0]).abs() <= tol) || !((ndc[1] - e[1]).abs() <= tol);
            let bad_z = if fam == 0 { !((ndc[2] - p[2]).abs() <= tol * (1.0 + p[2].abs())) } else { !((ndc[2] - e[2]).abs() <= tol) };
            if bad_xy || bad_z {
                fail = Some((if bad_z && !bad_xy { "depth" } else { "corner_off_the_clip_volume" }, format!("{} {:?} -> clip {:?} -> after divide {:?}, expected ({}, {}, {}) within {:e}", label, p, c, ndc, e[0], e[1], if fam == 0 { p[2] } else { e[2] }, tol)));
                break;
            }
        }
        let mut hh = H64::new();
        hh.s(api).s(&ty);
        for x in [l, r, b, t, n, f, fov, w, h, eps] {
            hh.f(x);
        }
        match fail {
            None => {
                sub.held(hh.get(), true);
                sub.sample(|| format!("{} [{}] {}: all corners on the clip volume within {:e}", api, ty, inputs(), tol));
            }
            Some((what, msg)) => {
                let v = violation(PROP, sub, api, &ty, "wrong_value", what, format!("{}; matrix (rows) = {:?}; {}", inputs(), a, msg), cfg.case_seed(), idx);
                sub.violated(v);
            }
        }
    }
}

fn main() {
    let cfg = Config::from_args(PROP);
    let mut rep = Report::new(cfg.clone());
    let n = cfg.n(2_000, 200_000);

    {
        let proto = Sub::new(
            "ortho_corners",
            "per index one random rational volume (entries n/d, |n|<=9, d<=4; 70% off-centre in both axes, 10% each centred in x / y / both; left><right, bottom><top, near><far in either order, negative and zero allowed, near!=far) through orthographic_without_depth_planes and orthographic_{lh,rh}_{zo,no} in both layouts; the matrix (raw fields) times each of the 8 corners (x in {l,r}, y in {b,t}, z = +d LH / -d RH, d in {near,far}), divided by w, must be (-1|+1, -1|+1, 0|-1 at near, 1 at far); without depth planes z must pass through; non-trivial = off-centre in both axes; distinct by (constructor, layout, planes)",
        )
        .with_floor(n * 10 * 4 / 10)
        .require(&["Mat4::orthographic_without_depth_planes", "Mat4::orthographic_lh_zo", "Mat4::orthographic_lh_no", "Mat4::orthographic_rh_zo", "Mat4::orthographic_rh_no"]);
        rep.push(run_cases(&cfg, proto, n, |s, i| {
            ortho_case::<Rows4<Q>>(s, &cfg, i);
            ortho_case::<Cols4<Q>>(s, &cfg, i);
        }));
    }
    {
        let proto = Sub::new(
            "frustum_corners",
            "per index one random rational frustum (planes as in ortho_corners, near and far positive in either order) through frustum_{lh,rh}_{zo,no} in both layouts; the 4 near corners (l|r, b|t, +-near) and the 4 far corners (scaled by far/near) must map to (-1|+1, -1|+1, 0|-1) and (-1|+1, -1|+1, 1) after the divide, every point in front of the viewer (corners, one arbitrary point) must get w > 0; non-trivial = off-centre in both axes; distinct by (constructor, layout, planes)",
        )
        .with_floor(n * 4 * 4 / 10)
        .require(&["Mat4::frustum_lh_zo", "Mat4::frustum_lh_no", "Mat4::frustum_rh_zo", "Mat4::frustum_rh_no"]);
        rep.push(run_cases(&cfg, proto, n, |s, i| {
            frustum_case::<Rows4<Q>>(s, &cfg, i);
            frustum_case::<Cols4<Q>>(s, &cfg, i);
        }));
    }
    {
        let proto = Sub::new(
            "perspective_corners",
            "per index one field of view in (0,pi) given as an angle token (u = tan(fov/4) = p/q, q <= 12, exact rational cos/sin of fov/2 registered), rational width, height (aspect = width/height, 10% aspect 1), near > 0, far > near, through perspective_{lh,rh}_{zo,no} and perspective_fov_{lh,rh}_{zo,no} in both layouts; implied planes top = near*tan(fov/2), right = top*aspect; the 8 corners must land on the clip volume corners and get w > 0; non-trivial = aspect != 1; distinct by (constructor, layout, fov, width, height, near, far)",
        )
        .with_floor(n * 16 * 4 / 10)
        .require(&[
            "Mat4::perspective_lh_zo",
            "Mat4::perspective_lh_no",
            "Mat4::perspective_rh_zo",
            "Mat4::perspective_rh_no",
            "Mat4::perspective_fov_lh_zo",
            "Mat4::perspective_fov_lh_no",
            "Mat4::perspective_fov_rh_zo",
            "Mat4::perspective_fov_rh_no",
        ]);
        rep.push(run_cases(&cfg, proto, n, |s, i| {
            perspective_case::<Rows4<Q>>(s, &cfg, i);
            perspective_case::<Cols4<Q>>(s, &cfg, i);
        }));
    }
    {
        let proto = Sub::new(
            "perspective_agreement",
            "inputs as in perspective_corners; perspective_X(fov,aspect,near,far) must equal frustum_X(-right,right,-top,top,near,far) of the implied symmetric planes entry by entry, and perspective_fov_X(fov,w,h,near,far) must equal perspective_X(fov,w/h,near,far) entry by entry, X in {lh,rh}x{zo,no}, both layouts; non-trivial = aspect != 1; distinct by (pair, layout, inputs)",
        )
        .with_floor(n * 16 * 4 / 10);
        rep.push(run_cases(&cfg, proto, n, |s, i| {
            agreement_case::<Rows4<Q>>(s, &cfg, i);
            agreement_case::<Cols4<Q>>(s, &cfg, i);
        }));
    }
    {
        let proto = Sub::new(
            "infinite_perspective",
            "inputs as in perspective_corners plus epsilon in {0, 2^-k, p/q in (0,1)} through (tweaked_)infinite_perspective_{lh,rh} in both layouts; corners of the cross-section at distances near < d1 < d2 must map to x,y = -1|+1, depth(near) = -1, depth(d) = (1-eps) - (2-eps)*near/d exactly, w > 0, and the depths must be strictly increasing and below 1-eps; non-trivial = aspect != 1; distinct by (constructor, layout, inputs)",
        )
        .with_floor(n * 8 * 4 / 10)
        .require(&["Mat4::tweaked_infinite_perspective_lh", "Mat4::tweaked_infinite_perspective_rh", "Mat4::infinite_perspective_lh", "Mat4::infinite_perspective_rh"]);
        rep.push(run_cases(&cfg, proto, n, |s, i| {
            infinite_case::<Rows4<Q>>(s, &cfg, i);
            infinite_case::<Cols4<Q>>(s, &cfg, i);
        }));
    }
    {
        let proto = Sub::new(
            "handedness_mirror",
            "for each of the 10 LH/RH pairs (orthographic zo/no, frustum zo/no, perspective zo/no, perspective_fov zo/no, tweaked_infinite, infinite) and both layouts: the LH matrix must equal the RH matrix with its z column negated (RH * diag(1,1,-1,1)) entry by entry, on the random volumes / fov inputs of the other sub-checks; non-trivial = off-centre volume (planes) or aspect != 1 (fov); distinct by (pair, layout, inputs)",
        )
        .with_floor(n * 20 * 4 / 10);
        rep.push(run_cases(&cfg, proto, n, |s, i| {
            mirror_case::<Rows4<Q>>(s, &cfg, i);
            mirror_case::<Cols4<Q>>(s, &cfg, i);
        }));
    }
    {
        let nf = cfg.n(1_000, 100_000);
        let apis: Vec<&str> = FCTORS.iter().map(|c| c.0).collect();
        let proto = Sub::new(
            "float_corners",
            "f32 and f64, both layouts: per index one random volume (planes in [-10,10] at least 5% apart, near 0.01..30, far/near 1.2..1000) and one field of view (a third narrow, 3e-4..0.3 rad, the rest 0.1..3 rad; width, height 0.2..8) through all 21 constructors; the 8 corners (infinite perspective: near corners and the cross-sections at 3 and 40 times near) through the returned matrix (raw fields, arithmetic in f64) must land on the clip-volume corners within 256 eps * (1 + (|l|+|r|)/|r-l| + (|b|+|t|)/|t-b| + (n+f)/|f-n|) and get w > 0; distinct by (constructor, layout, type, inputs)",
        )
        .with_floor(nf * 21 * 2)
        .require(&apis);
        rep.push(run_cases(&cfg, proto, nf, |s, i| {
            float_case::<f32, Rows4<f32>>(s, &cfg, i, "Rows");
            float_case::<f32, Cols4<f32>>(s, &cfg, i, "Cols");
            float_case::<f64, Rows4<f64>>(s, &cfg, i, "Rows");
            float_case::<f64, Cols4<f64>>(s, &cfg, i, "Cols");
        }));
    }
    std::process::exit(rep.finish());
}

//! C14 — Bezier evaluate, derivative, split and conversions obey the Bernstein identities.
//!
//! Trace sub-checks: a curve whose control-point coordinates are distinct free `Sym` symbols is
//! pushed through vek's real `evaluate`, `evaluate_derivative`, `split`, `matrix`, `reversed`,
//! flips, degree elevation, line/range constructors, 2D<->3D conversions and `Mat * Bezier`
//! with *symbolic* parameters t,u (so extrapolation is included).  Every logged output
//! expression is compared with the Bernstein definition by polynomial identity testing over
//! GF(2^61-1); `evaluate_derivative` is compared with the forward-mode derivative (dual numbers,
//! dual part 1 on t) of the *logged* `evaluate` expression.  Pure data movement
//! (`into_vec3/4`, `into_tuple`, `into_array`, `From<Vec>`, `reverse`) is watched with `Tag`.
//! `normalized_tangent` runs on `Q` with curves constructed to have a rational-length derivative
//! and on `f64` with a derived tolerance; the quarter circle / circle on `f32` and `f64`.

use monitors::fp::Fp;
use monitors::gen::{rational_length_vec2, rational_length_vec3, small_q};
use monitors::prng::{hash_str, mix2, Rng, H64};
use monitors::report::{guarded, run_cases, take_poison, Config, Report, Sub};
use monitors::sym::{eval_all, exact_witness, sym_reset, Dual, Point, Sym};
use monitors::tag::{Tag, TAG_ZERO};
use monitors::Q;
use num_traits::real::Real;
use props::*;
use std::fmt::Debug;
use std::ops::{Add, Mul, Sub as OpSub};
use vek::bezier::repr_c::{CubicBezier2, CubicBezier3, QuadraticBezier2, QuadraticBezier3};
use vek::geom::repr_c::{LineSegment2, LineSegment3};
use vek::ops::{Lerp, MulAdd};
use vek::vec::repr_c::{Vec2, Vec3, Vec4};

const PROP: &str = "C14";

// ------------------------------------------------------------------ element / curve abstraction

/// everything vek's Bezier impls ask of an element type
trait El: Real + MulAdd<Self, Self, Output = Self> + Lerp<Self, Output = Self> + From<u16> + Debug {}
impl<T: Real + MulAdd<T, T, Output = T> + Lerp<T, Output = T> + From<u16> + Debug> El for T {}

/// raw-field view of the four curve types (construction and reading never go through vek code)
trait Cv<T: Copy>: Copy {
    const DEG: usize;
    const DIM: usize;
    const NAME: &'static str;
    type P: VecX<T> + Copy;
    fn build(f: &mut dyn FnMut(usize, usize) -> T) -> Self;
    fn point(&self, k: usize) -> Self::P;
    fn coords(&self) -> Vec<T> {
        (0..=Self::DEG).flat_map(|k| self.point(k).to_vec()).collect()
    }
}

/// the vek entry points (inherent methods) behind one generic interface
trait CvR<T: El>: Cv<T> {
    fn v_evaluate(self, t: T) -> Self::P;
    fn v_derivative(self, t: T) -> Self::P;
    fn v_split(self, t: T) -> [Self; 2];
    fn v_matrix() -> Vec<Vec<T>>;
    fn v_reversed(self) -> Self;
    fn v_reverse(&mut self);
    fn v_flipped(self, ax: usize) -> Self;
    fn v_flip(&mut self, ax: usize);
    fn v_tangent(self, t: T) -> Self::P;
}

macro_rules! impl_cv {
    ($B:ident, $name:expr, $deg:expr, $dim:expr, $P:ident, [$($f:ident),+], [$(($ax:expr, $flipped:ident, $flip:ident)),+]) => {
        impl<T: Copy> Cv<T> for $B<T> {
            const DEG: usize = $deg;
            const DIM: usize = $dim;
            const NAME: &'static str = $name;
            type P = $P<T>;
            fn build(f: &mut dyn FnMut(usize, usize) -> T) -> Self {
                let mut ks = 0usize..;
                $B {
                    $($f: {
                        let k = ks.next().unwrap();
                        <$P<T> as VecX<T>>::from_fn(|d| f(k, d))
                    }),+
                }
            }
            fn point(&self, k: usize) -> $P<T> {
                let a = [$(self.$f),+];
                a[k]
            }
        }
        impl<T: El> CvR<T> for $B<T> {
            fn v_evaluate(self, t: T) -> $P<T> { self.evaluate(t) }
            fn v_derivative(self, t: T) -> $P<T> { self.evaluate_derivative(t) }
            fn v_split(self, t: T) -> [Self; 2] { self.split(t) }
            fn v_matrix() -> Vec<Vec<T>> { let m = <$B<T>>::matrix(); MatX::to_rows(&m) }
            fn v_reversed(self) -> Self { self.reversed() }
            fn v_reverse(&mut self) { self.reverse() }
            fn v_flipped(self, ax: usize) -> Self {
                match ax { $($ax => self.$flipped(),)+ _ => unreachable!() }
            }
            fn v_flip(&mut self, ax: usize) {
                match ax { $($ax => self.$flip(),)+ _ => unreachable!() }
            }
            fn v_tangent(self, t: T) -> $P<T> { self.normalized_tangent(t) }
        }
    };
}
impl_cv!(QuadraticBezier2, "QuadraticBezier2", 2, 2, Vec2, [start, ctrl, end], [(0, flipped_x, flip_x), (1, flipped_y, flip_y)]);
impl_cv!(QuadraticBezier3, "QuadraticBezier3", 2, 3, Vec3, [start, ctrl, end], [(0, flipped_x, flip_x), (1, flipped_y, flip_y), (2, flipped_z, flip_z)]);
impl_cv!(CubicBezier2, "CubicBezier2", 3, 2, Vec2, [start, ctrl0, ctrl1, end], [(0, flipped_x, flip_x), (1, flipped_y, flip_y)]);
impl_cv!(CubicBezier3, "CubicBezier3", 3, 3, Vec3, [start, ctrl0, ctrl1, end], [(0, flipped_x, flip_x), (1, flipped_y, flip_y), (2, flipped_z, flip_z)]);

const AXES: [&str; 3] = ["x", "y", "z"];

// ------------------------------------------------------------------ the oracle: Bernstein form

trait Ring: Copy + Add<Output = Self> + OpSub<Output = Self> + Mul<Output = Self> + From<i32> {}
impl<T: Copy + Add<Output = T> + OpSub<Output = T> + Mul<Output = T> + From<i32>> Ring for T {}

fn binom(n: usize, k: usize) -> i32 {
    // Pascal's triangle, n <= 3
    const TRI: [[i32; 4]; 4] = [[1, 0, 0, 0], [1, 1, 0, 0], [1, 2, 1, 0], [1, 3, 3, 1]];
    TRI[n][k]
}

/// B(t) = sum_k C(n,k) (1-t)^(n-k) t^k P_k, straight from the definition
fn bern<T: Ring>(pts: &[Vec<T>], t: T) -> Vec<T> {
    let n = pts.len() - 1;
    let dim = pts[0].len();
    let s = T::from(1) - t;
    let mut out = vec![T::from(0); dim];
    for (k, p) in pts.iter().enumerate() {
        let mut w = T::from(binom(n, k));
        for _ in 0..(n - k) {
            w = w * s;
        }
        for _ in 0..k {
            w = w * t;
        }
        for d in 0..dim {
            out[d] = out[d] + w * p[d];
        }
    }
    out
}

/// B'(t) = n * sum_k C(n-1,k) (1-t)^(n-1-k) t^k (P_{k+1} - P_k)
fn bern_deriv<T: Ring>(pts: &[Vec<T>], t: T) -> Vec<T> {
    let n = pts.len() - 1;
    let diffs: Vec<Vec<T>> = (0..n).map(|k| pts[k + 1].iter().zip(pts[k].iter()).map(|(a, b)| *a - *b).collect()).collect();
    bern(&diffs, t).into_iter().map(|v| v * T::from(n as i32)).collect()
}

// ------------------------------------------------------------------ trace plumbing

fn nv<C: Cv<Sym>>() -> usize {
    (C::DEG + 1) * C::DIM
}
/// variable budget handed to the identity test: control points, t, u, a 4x4 matrix
const NVARS: usize = 12 + 2 + 16;

fn sym_curve<C: Cv<Sym>>() -> C {
    C::build(&mut |k, d| Sym::var((k * C::DIM + d) as u32))
}
fn pts_of<C: Cv<Sym>>(f: &dyn Fn(u32) -> Fp) -> Vec<Vec<Fp>> {
    (0..=C::DEG).map(|k| (0..C::DIM).map(|d| f((k * C::DIM + d) as u32)).collect()).collect()
}

/// run one vek call; a panic is a violation of class `panic`
fn call<R>(sub: &mut Sub, cfg: &Config, idx: u64, api: &str, ty: &str, case: &str, f: impl FnOnce() -> R) -> Option<R> {
    match guarded(f) {
        Ok(r) => Some(r),
        Err(e) => {
            sub.saw(api);
            let _ = take_poison();
            let v = violation(PROP, sub, api, ty, "panic", case, format!("{} [{}] {}: panicked: {}", api, ty, case, e), cfg.case_seed(), idx);
            sub.violated(v);
            None
        }
    }
}

/// a violated case is conclusive too: it counts towards the distinct non-trivial conclusive cases
/// (so that a defect shows as exit 1, not as a missed floor)
fn count_violated(sub: &mut Sub, hash: u64) {
    sub.nontrivial += 1;
    sub.distinct.insert(hash);
}

fn pit(sub: &mut Sub, cfg: &Config, api: &str, case: &str, outs: &[Sym], reference: &dyn Fn(&dyn Fn(u32) -> Fp) -> Vec<Fp>) {
    let before = sub.violations_total;
    decide_pit(PROP, sub, api, "Sym", case, outs, NVARS, cfg.case_seed(), 0, reference);
    if sub.violations_total > before {
        count_violated(sub, mix2(mix2(hash_str(case), hash_str("Sym")), hash_str(api)));
    }
}

/// `der_outs[i]` must be d/dt of `val_outs[i]`, both read from the same operation log:
/// the log is evaluated over dual numbers (dual part 1 on variable `tv`) at random points of
/// GF(p); the dual part of evaluate's output must equal the value of evaluate_derivative's.
fn decide_derivative<C: Cv<Sym>>(sub: &mut Sub, cfg: &Config, api: &str, case: &str, val_outs: &[Sym], der_outs: &[Sym], tv: u32) {
    sub.saw(api);
    if let Some(p) = take_poison() {
        sub.inconclusive(&format!("poison:{}", p));
        return;
    }
    let mut rng = Rng::for_case(&format!("{}/{}", api, case), cfg.case_seed(), 0);
    let h = mix2(mix2(hash_str(case), hash_str("Sym")), hash_str(api));
    let mut done = 0;
    let mut attempts = 0;
    while done < 6 && attempts < 24 {
        attempts += 1;
        let pt = Point::random(NVARS, &mut rng);
        let all = eval_all::<Dual>(&|k| Dual { v: pt.get(k), d: if k == tv { Fp::ONE } else { Fp::ZERO } });
        let mut defined = true;
        for i in 0..val_outs.len() {
            match (all[val_outs[i].0 as usize], all[der_outs[i].0 as usize]) {
                (Some(a), Some(b)) => {
                    if a.d != b.v {
                        // concrete small witness: vek's derivative value vs the analytic derivative of the Bernstein form
                        let wit = exact_witness(der_outs[i], NVARS, &mut rng);
                        let _ = take_poison();
                        let w = match wit {
                            Some((vals, v)) => {
                                let pts: Vec<Vec<Q>> = (0..=C::DEG).map(|k| (0..C::DIM).map(|d| Q::int(vals[k * C::DIM + d])).collect()).collect();
                                let e = bern_deriv(&pts, Q::int(vals[tv as usize]));
                                let _ = take_poison();
                                format!("control points {:?}, t = {}: vek computes {} for component {}, d/dt of the Bernstein form is {}", pts, vals[tv as usize], v, AXES[i], e[i])
                            }
                            None => "no small exact witness computed".to_string(),
                        };
                        let detail = format!(
                            "{} [Sym] {}: component {} of evaluate_derivative(t) is not d/dt of the logged evaluate(t) expression; logged derivative expression = {}; {}",
                            api,
                            case,
                            AXES[i],
                            clip(&der_outs[i].render(), 400),
                            w
                        );
                        let v = violation(PROP, sub, api, "Sym", "wrong_value", case, detail, cfg.case_seed(), 0);
                        sub.violated(v);
                        count_violated(sub, h);
                        return;
                    }
                }
                _ => defined = false,
            }
        }
        if defined {
            done += 1;
        }
    }
    if done == 0 {
        sub.inconclusive("dual_undefined");
        return;
    }
    sub.sample(|| format!("{} [Sym] {}: d/dt of logged evaluate == logged evaluate_derivative at {} dual points; derivative.x = {}", api, case, done, clip(&der_outs[0].render(), 160)));
    sub.held(h, true);
}

// ------------------------------------------------------------------ evaluate / derivative / split / matrix / reverse / flips

fn trace_curve<C: CvR<Sym>>(sub: &mut Sub, cfg: &Config) {
    let tv = nv::<C>() as u32;
    let uv = tv + 1;
    let api = |m: &str| format!("{}::{}", C::NAME, m);
    let last = C::DEG;

    // evaluate == Bernstein polynomial (free t: extrapolation included)
    sym_reset();
    let c: C = sym_curve();
    let t = Sym::var(tv);
    if let Some(p) = call(sub, cfg, 0, &api("evaluate"), "Sym", "evaluate_is_bernstein", || c.v_evaluate(t)) {
        pit(sub, cfg, &api("evaluate"), "evaluate_is_bernstein", &p.to_vec(), &|f| bern(&pts_of::<C>(f), f(tv)));
    }
    // start at 0, end at 1
    sym_reset();
    let c: C = sym_curve();
    if let Some((p0, p1)) = call(sub, cfg, 0, &api("evaluate"), "Sym", "evaluate_endpoints", || (c.v_evaluate(Sym::konst(0)), c.v_evaluate(Sym::konst(1)))) {
        let mut o = p0.to_vec();
        o.extend(p1.to_vec());
        pit(sub, cfg, &api("evaluate"), "evaluate_endpoints", &o, &|f| {
            let p = pts_of::<C>(f);
            let mut e = p[0].clone();
            e.extend(p[last].clone());
            e
        });
    }
    // evaluate_derivative == d/dt of the logged evaluate
    sym_reset();
    let c: C = sym_curve();
    let t = Sym::var(tv);
    if let Some((p, d)) = call(sub, cfg, 0, &api("evaluate_derivative"), "Sym", "derivative_of_logged_evaluate", || (c.v_evaluate(t), c.v_derivative(t))) {
        decide_derivative::<C>(sub, cfg, &api("evaluate_derivative"), "derivative_of_logged_evaluate", &p.to_vec(), &d.to_vec(), tv);
    }
    // split
    sym_reset();
    let c: C = sym_curve();
    let t = Sym::var(tv);
    let u = Sym::var(uv);
    if let Some(([a, b], pa, pb)) = call(sub, cfg, 0, &api("split"), "Sym", "split", || {
        let [a, b] = c.v_split(t);
        ([a, b], a.v_evaluate(u), b.v_evaluate(u))
    }) {
        pit(sub, cfg, &api("split"), "split_first_reparametrizes_0_t", &pa.to_vec(), &|f| bern(&pts_of::<C>(f), f(tv).mul(f(uv))));
        pit(sub, cfg, &api("split"), "split_second_reparametrizes_t_1", &pb.to_vec(), &|f| {
            let (t, u) = (f(tv), f(uv));
            bern(&pts_of::<C>(f), t.add(Fp::ONE.sub(t).mul(u)))
        });
        let mut o = a.point(last).to_vec();
        o.extend(b.point(0).to_vec());
        o.extend(a.point(0).to_vec());
        o.extend(b.point(last).to_vec());
        pit(sub, cfg, &api("split"), "split_halves_meet_at_curve_point", &o, &|f| {
            let p = pts_of::<C>(f);
            let m = bern(&p, f(tv));
            let mut e = m.clone();
            e.extend(m);
            e.extend(p[0].clone());
            e.extend(p[last].clone());
            e
        });
    }
    // matrix(): [1, t, t^2 (, t^3)] . M . P == evaluate(t)
    sym_reset();
    let c: C = sym_curve();
    let t = Sym::var(tv);
    if let Some(m) = call(sub, cfg, 0, &api("matrix"), "Sym", "matrix_reproduces_evaluate", || C::v_matrix()) {
        let mut pw = vec![Sym::konst(1)];
        for i in 1..=C::DEG {
            pw.push(pw[i - 1] * t);
        }
        let mut o = Vec::new();
        for d in 0..C::DIM {
            let mut acc = Sym::konst(0);
            for j in 0..=C::DEG {
                let mut w = Sym::konst(0);
                for i in 0..=C::DEG {
                    w = w + pw[i] * m[i][j];
                }
                acc = acc + w * c.point(j).get(d);
            }
            o.push(acc);
        }
        pit(sub, cfg, &api("matrix"), "matrix_reproduces_evaluate", &o, &|f| bern(&pts_of::<C>(f), f(tv)));
    }
    // reversed / reverse <-> evaluate at 1 - t
    for inplace in [false, true] {
        sym_reset();
        let c: C = sym_curve();
        let t = Sym::var(tv);
        let (m, case) = if inplace { ("reverse", "reverse_is_curve_at_1_minus_t") } else { ("reversed", "reversed_is_curve_at_1_minus_t") };
        if let Some((r, p)) = call(sub, cfg, 0, &api(m), "Sym", case, || {
            let r = if inplace {
                let mut r = c;
                r.v_reverse();
                r
            } else {
                c.v_reversed()
            };
            (r, r.v_evaluate(t))
        }) {
            let mut o = r.coords();
            o.extend(p.to_vec());
            pit(sub, cfg, &api(m), case, &o, &|f| {
                let p = pts_of::<C>(f);
                let mut e: Vec<Fp> = p.iter().rev().flatten().copied().collect();
                e.extend(bern(&p, Fp::ONE.sub(f(tv))));
                e
            });
        }
    }
    // axis flips, by value and in place
    for ax in 0..C::DIM {
        for inplace in [false, true] {
            sym_reset();
            let c: C = sym_curve();
            let t = Sym::var(tv);
            let m = if inplace { format!("flip_{}", AXES[ax]) } else { format!("flipped_{}", AXES[ax]) };
            let case = format!("{}_negates_only_{}", m, AXES[ax]);
            if let Some((r, p)) = call(sub, cfg, 0, &api(&m), "Sym", &case, || {
                let r = if inplace {
                    let mut r = c;
                    r.v_flip(ax);
                    r
                } else {
                    c.v_flipped(ax)
                };
                (r, r.v_evaluate(t))
            }) {
                let mut o = r.coords();
                o.extend(p.to_vec());
                pit(sub, cfg, &api(&m), &case, &o, &|f| {
                    let p = pts_of::<C>(f);
                    let fl = |v: &Vec<Fp>| -> Vec<Fp> { v.iter().enumerate().map(|(d, x)| if d == ax { x.neg() } else { *x }).collect() };
                    let mut e: Vec<Fp> = p.iter().flat_map(|q| fl(q)).collect();
                    e.extend(fl(&bern(&p, f(tv))));
                    e
                });
            }
        }
    }
}

// ------------------------------------------------------------------ conversions (trace)

macro_rules! elevation {
    ($sub:expr, $cfg:expr, $Q:ident, $C:ident) => {{
        type QB = $Q<Sym>;
        type CB = $C<Sym>;
        let tv = nv::<QB>() as u32;
        for (api, case, via_from) in [
            (format!("{}::into_cubic", <QB as Cv<Sym>>::NAME), "into_cubic_same_function_of_t", false),
            (format!("From<{}> for {}", <QB as Cv<Sym>>::NAME, <CB as Cv<Sym>>::NAME), "from_quadratic_same_function_of_t", true),
        ] {
            sym_reset();
            let q: QB = sym_curve();
            let t = Sym::var(tv);
            if let Some((c, p)) = call($sub, $cfg, 0, &api, "Sym", case, || {
                let c: CB = if via_from { CB::from(q) } else { q.into_cubic() };
                (c, c.v_evaluate(t))
            }) {
                let mut o = p.to_vec();
                o.extend(c.point(0).to_vec());
                o.extend(c.point(3).to_vec());
                pit($sub, $cfg, &api, case, &o, &|f| {
                    let p = pts_of::<QB>(f);
                    let mut e = bern(&p, f(tv));
                    e.extend(p[0].clone());
                    e.extend(p[2].clone());
                    e
                });
            }
        }
    }};
}

macro_rules! from_segment {
    ($sub:expr, $cfg:expr, $B:ident, $Seg:ident, $segname:expr, $P:ident, $pname:expr) => {{
        type B = $B<Sym>;
        let dim = <B as Cv<Sym>>::DIM;
        let last = <B as Cv<Sym>>::DEG;
        let tv = (2 * dim) as u32;
        for (api, case, via_range) in [
            (format!("From<{}> for {}", $segname, <B as Cv<Sym>>::NAME), "from_line_segment_is_lerp", false),
            (format!("From<Range<{}>> for {}", $pname, <B as Cv<Sym>>::NAME), "from_range_is_lerp", true),
        ] {
            sym_reset();
            let s = <$P<Sym> as VecX<Sym>>::from_fn(|d| Sym::var(d as u32));
            let e = <$P<Sym> as VecX<Sym>>::from_fn(|d| Sym::var((dim + d) as u32));
            let t = Sym::var(tv);
            if let Some((c, p)) = call($sub, $cfg, 0, &api, "Sym", case, || {
                let c: B = if via_range { B::from(s..e) } else { B::from($Seg { start: s, end: e }) };
                (c, c.v_evaluate(t))
            }) {
                let mut o = p.to_vec();
                o.extend(c.point(0).to_vec());
                o.extend(c.point(last).to_vec());
                pit($sub, $cfg, &api, case, &o, &|f| {
                    let s: Vec<Fp> = (0..dim).map(|d| f(d as u32)).collect();
                    let e: Vec<Fp> = (0..dim).map(|d| f((dim + d) as u32)).collect();
                    let t = f(tv);
                    let mut r: Vec<Fp> = (0..dim).map(|d| s[d].add(t.mul(e[d].sub(s[d])))).collect();
                    r.extend(s);
                    r.extend(e);
                    r
                });
            }
        }
    }};
}

macro_rules! dim_change {
    ($sub:expr, $cfg:expr, $B2:ident, $B3:ident) => {{
        type B2 = $B2<Sym>;
        type B3 = $B3<Sym>;
        let n2 = <B2 as Cv<Sym>>::NAME;
        let n3 = <B3 as Cv<Sym>>::NAME;
        // 2D -> 3D: z = 0 added
        for (api, case, via_from) in [(format!("{}::into_3d", n2), "into_3d_adds_zero_z", false), (format!("From<{}> for {}", n2, n3), "from_2d_adds_zero_z", true)] {
            sym_reset();
            let c2: B2 = sym_curve();
            let tv = nv::<B2>() as u32;
            let t = Sym::var(tv);
            if let Some((c3, p)) = call($sub, $cfg, 0, &api, "Sym", case, || {
                let c3: B3 = if via_from { B3::from(c2) } else { c2.into_3d() };
                (c3, c3.v_evaluate(t))
            }) {
                let mut o = c3.coords();
                o.extend(p.to_vec());
                pit($sub, $cfg, &api, case, &o, &|f| {
                    let p = pts_of::<B2>(f);
                    let mut e: Vec<Fp> = p.iter().flat_map(|q| vec![q[0], q[1], Fp::ZERO]).collect();
                    let b = bern(&p, f(tv));
                    e.extend(vec![b[0], b[1], Fp::ZERO]);
                    e
                });
            }
        }
        // 3D -> 2D: z dropped
        for (api, case, via_from) in [(format!("{}::into_2d", n3), "into_2d_drops_z", false), (format!("From<{}> for {}", n3, n2), "from_3d_drops_z", true)] {
            sym_reset();
            let c3: B3 = sym_curve();
            let tv = nv::<B3>() as u32;
            let t = Sym::var(tv);
            if let Some((c2, p)) = call($sub, $cfg, 0, &api, "Sym", case, || {
                let c2: B2 = if via_from { B2::from(c3) } else { c3.into_2d() };
                (c2, c2.v_evaluate(t))
            }) {
                let mut o = c2.coords();
                o.extend(p.to_vec());
                pit($sub, $cfg, &api, case, &o, &|f| {
                    let p = pts_of::<B3>(f);
                    let mut e: Vec<Fp> = p.iter().flat_map(|q| vec![q[0], q[1]]).collect();
                    let b = bern(&p, f(tv));
                    e.extend(vec![b[0], b[1]]);
                    e
                });
            }
        }
    }};
}

// ------------------------------------------------------------------ Mat * Bezier (trace)

/// naive action of an N x N matrix on a DIM-vector: linear if N == DIM, affine with w = 1 (result
/// drops w) if N == DIM + 1
fn act(m: &[Vec<Fp>], p: &[Fp]) -> Vec<Fp> {
    let dim = p.len();
    (0..dim)
        .map(|i| {
            let mut s = Fp::ZERO;
            for j in 0..dim {
                s = s.add(m[i][j].mul(p[j]));
            }
            if m.len() == dim + 1 {
                s = s.add(m[i][dim]);
            }
            s
        })
        .collect()
}

fn mat_trace<M, C>(sub: &mut Sub, cfg: &Config)
where
    M: MatX<Sym> + Mul<C, Output = C> + Copy,
    C: CvR<Sym>,
{
    let n = M::N;
    let tv = nv::<C>() as u32;
    let mv = tv + 2;
    let api = format!("Mul<{}> for {}", C::NAME, M::NAME);
    let case = if n == C::DIM { "linear_map_commutes_with_evaluate" } else { "affine_map_w1_commutes_with_evaluate" };
    sym_reset();
    let c: C = sym_curve();
    let t = Sym::var(tv);
    let m = M::from_fn(|i, j| Sym::var(mv + (i * n + j) as u32));
    if let Some((r, p)) = call(sub, cfg, 0, &api, "Sym", case, || {
        let r = m * c;
        (r, r.v_evaluate(t))
    }) {
        let mut o = r.coords();
        o.extend(p.to_vec());
        pit(sub, cfg, &api, case, &o, &|f| {
            let mm: Vec<Vec<Fp>> = (0..n).map(|i| (0..n).map(|j| f(mv + (i * n + j) as u32)).collect()).collect();
            let p = pts_of::<C>(f);
            let mut e: Vec<Fp> = p.iter().flat_map(|q| act(&mm, q)).collect();
            e.extend(act(&mm, &bern(&p, f(tv))));
            e
        });
    }
}

/// Mat * Bezier on concrete rational matrices with special structure — zero, identity, a zero row or
/// column, rank one, a projection, diagonal with a zero, and random ones: every matrix is a legal
/// linear (affine) map, singular or not, and the product is the curve of the transformed control points
fn mat_values<M, C>(sub: &mut Sub, cfg: &Config, idx: u64)
where
    M: MatX<Q> + Mul<C, Output = C> + Copy,
    C: CvR<Q>,
{
    let n = M::N;
    let dim = C::DIM;
    let api = format!("Mul<{}> for {}", C::NAME, M::NAME);
    let mut rng = Rng::for_case(&format!("mat_values/{}/{}", M::NAME, C::NAME), cfg.case_seed(), idx);
    let _ = take_poison();
    let mut g: Vec<Vec<Q>> = (0..n).map(|_| (0..n).map(|_| small_q(&mut rng, 6, 3)).collect()).collect();
    let kind = idx % 8;
    match kind {
        0 => g = vec![vec![Q::ZERO; n]; n],
        1 => g = (0..n).map(|i| (0..n).map(|j| if i == j { Q::ONE } else { Q::ZERO }).collect()).collect(),
        2 => { let r = rng.usize_below(dim); for j in 0..n { g[r][j] = Q::ZERO; } }
        3 => { let c = rng.usize_below(dim); for i in 0..n { g[i][c] = Q::ZERO; } }
        4 => {
            // rank one on the linear block: every row a multiple of the first
            for i in 1..dim { let k = small_q(&mut rng, 4, 2); for j in 0..dim { g[i][j] = g[0][j] * k; } }
        }
        5 => { for i in 0..dim { for j in 0..dim { g[i][j] = if i == j && i != 0 { Q::ONE } else { Q::ZERO }; } } }
        _ => {}
    }
    if n == dim + 1 && kind != 0 {
        // affine: last row (0,..,0,1)
        for j in 0..n { g[n - 1][j] = if j == n - 1 { Q::ONE } else { Q::ZERO }; }
    }
    let pts: Vec<Vec<Q>> = (0..=C::DEG).map(|_| (0..dim).map(|_| small_q(&mut rng, 9, 4)).collect()).collect();
    let m = M::from_fn(|i, j| g[i][j]);
    let c = C::build(&mut |k, d| pts[k][d]);
    let mut h = H64::new();
    h.s(&api);
    for r in g.iter().chain(pts.iter()) { for x in r { h.u(x.hash64()); } }
    sub.saw(&api);
    let desc = || format!("matrix (rows) {:?} * {} {:?}", g, C::NAME, pts);
    match guarded(|| m * c) {
        Err(e) => {
            let _ = take_poison();
            let v = violation(PROP, sub, &api, "Q", "panic", "curve_of_transformed_control_points", format!("{}: panicked: {}", desc(), e), cfg.case_seed(), idx);
            sub.violated(v);
        }
        Ok(r) => {
            if let Some(p) = take_poison() {
                sub.inconclusive(&format!("poison:{}", p));
                return;
            }
            let exp: Vec<Vec<Q>> = pts
                .iter()
                .map(|p| {
                    (0..dim)
                        .map(|i| {
                            let mut s = Q::ZERO;
                            for j in 0..dim { s = s + g[i][j] * p[j]; }
                            if n == dim + 1 && kind != 0 { s = s + g[i][dim]; }
                            s
                        })
                        .collect()
                })
                .collect();
            if n == dim + 1 && kind == 0 {
                // the zero 4x4 / 3x3 matrix has w = 0: outside "affine with last row (0,..,0,1)"; only the absence of a panic is judged
                sub.held(h.get(), false);
                return;
            }
            let got: Vec<Vec<Q>> = (0..=C::DEG).map(|k| r.point(k).to_vec()).collect();
            if got != exp {
                let v = violation(PROP, sub, &api, "Q", "wrong_value", "curve_of_transformed_control_points", format!("{}: product has control points {:?}, the transformed control points are {:?}", desc(), got, exp), cfg.case_seed(), idx);
                sub.violated(v);
            } else {
                sub.sample(|| format!("{} -> {:?}", desc(), got));
                sub.held(h.get(), kind != 1);
            }
        }
    }
}

// ------------------------------------------------------------------ data movement (Tag)

fn tag_curve<C: Cv<Tag>>() -> C {
    C::build(&mut |k, d| Tag((k * C::DIM + d + 1) as u32))
}
fn tag_expect(sub: &mut Sub, cfg: &Config, api: &str, case: &str, got: Vec<Tag>, exp: Vec<Tag>) {
    sub.saw(api);
    if let Some(p) = take_poison() {
        sub.inconclusive(&format!("poison:{}", p));
        return;
    }
    let h = mix2(hash_str(api), hash_str(case));
    if got == exp {
        sub.sample(|| format!("{} [Tag] {}: {:?}", api, case, got));
        sub.held(h, true);
    } else {
        let detail = format!("{} [Tag] {}: element ids in declaration order are {:?}, expected {:?}", api, case, got, exp);
        let v = violation(PROP, sub, api, "Tag", "wrong_value", case, detail, cfg.case_seed(), 0);
        sub.violated(v);
        count_violated(sub, h);
    }
}

macro_rules! tag_moves {
    ($sub:expr, $cfg:expr, $B:ident, $V:ident, $into_vec:ident, $vecname:expr, ($($tp:ident),+)) => {{
        type B = $B<Tag>;
        let name = <B as Cv<Tag>>::NAME;
        let c: B = tag_curve();
        let ids: Vec<Tag> = c.coords();
        let flatten = |v: Vec<<B as Cv<Tag>>::P>| -> Vec<Tag> { v.into_iter().flat_map(|p| VecX::into_fields(p)).collect() };
        let api = format!("{}::{}", name, stringify!($into_vec));
        if let Some(v) = call($sub, $cfg, 0, &api, "Tag", "control_points_in_order", || c.$into_vec()) {
            tag_expect($sub, $cfg, &api, "control_points_in_order", flatten(VecX::into_fields(v)), ids.clone());
        }
        let api = format!("From<{}> for {}", name, $vecname);
        if let Some(v) = call($sub, $cfg, 0, &api, "Tag", "control_points_in_order", || <$V<<B as Cv<Tag>>::P>>::from(c)) {
            tag_expect($sub, $cfg, &api, "control_points_in_order", flatten(VecX::into_fields(v)), ids.clone());
        }
        let api = format!("{}::into_tuple", name);
        if let Some(($($tp),+)) = call($sub, $cfg, 0, &api, "Tag", "control_points_in_order", || c.into_tuple()) {
            tag_expect($sub, $cfg, &api, "control_points_in_order", flatten(vec![$($tp),+]), ids.clone());
        }
        let api = format!("{}::into_array", name);
        if let Some(a) = call($sub, $cfg, 0, &api, "Tag", "control_points_in_order", || c.into_array()) {
            tag_expect($sub, $cfg, &api, "control_points_in_order", flatten(a.to_vec()), ids.clone());
        }
        let api = format!("From<{}> for {}", $vecname, name);
        let pts: Vec<<B as Cv<Tag>>::P> = (0..=<B as Cv<Tag>>::DEG).map(|k| c.point(k)).collect();
        let v = <$V<<B as Cv<Tag>>::P> as VecX<_>>::from_fn(|k| pts[k]);
        if let Some(b) = call($sub, $cfg, 0, &api, "Tag", "control_points_in_order", || B::from(v)) {
            tag_expect($sub, $cfg, &api, "control_points_in_order", b.coords(), ids.clone());
        }
        // reversal is pure data movement: control points in reverse order, coordinates untouched
        let rev: Vec<Tag> = pts.iter().rev().flat_map(|p| p.to_vec()).collect();
        let api = format!("{}::reversed", name);
        if let Some(b) = call($sub, $cfg, 0, &api, "Tag", "control_points_reversed", || c.reversed()) {
            tag_expect($sub, $cfg, &api, "control_points_reversed", b.coords(), rev.clone());
        }
        let api = format!("{}::reverse", name);
        if let Some(b) = call($sub, $cfg, 0, &api, "Tag", "control_points_reversed", || { let mut b = c; b.reverse(); b }) {
            tag_expect($sub, $cfg, &api, "control_points_reversed", b.coords(), rev.clone());
        }
    }};
}

macro_rules! tag_dims {
    ($sub:expr, $cfg:expr, $B2:ident, $B3:ident) => {{
        let c2: $B2<Tag> = tag_curve();
        let api = format!("{}::into_3d", <$B2<Tag> as Cv<Tag>>::NAME);
        if let Some(c3) = call($sub, $cfg, 0, &api, "Tag", "xy_kept_z_is_zero", || c2.into_3d()) {
            let exp: Vec<Tag> = (0..=<$B2<Tag> as Cv<Tag>>::DEG).flat_map(|k| { let p = c2.point(k); vec![p.x, p.y, Tag(TAG_ZERO)] }).collect();
            tag_expect($sub, $cfg, &api, "xy_kept_z_is_zero", c3.coords(), exp);
        }
        let c3: $B3<Tag> = tag_curve();
        let api = format!("{}::into_2d", <$B3<Tag> as Cv<Tag>>::NAME);
        if let Some(c2) = call($sub, $cfg, 0, &api, "Tag", "xy_kept_z_dropped", || c3.into_2d()) {
            let exp: Vec<Tag> = (0..=<$B3<Tag> as Cv<Tag>>::DEG).flat_map(|k| { let p = c3.point(k); vec![p.x, p.y] }).collect();
            tag_expect($sub, $cfg, &api, "xy_kept_z_dropped", c2.coords(), exp);
        }
    }};
}

// ------------------------------------------------------------------ normalized_tangent

fn nonzero_param(rng: &mut Rng) -> Q {
    match rng.below(8) {
        0 => Q::ONE,
        1 => Q::frac(-rng.range_i64(1, 6), rng.range_i64(1, 4)),
        2 => Q::ONE + Q::frac(rng.range_i64(1, 6), rng.range_i64(1, 4)),
        _ => {
            let d = rng.range_i64(2, 9);
            Q::frac(rng.range_i64(1, d - 1), d)
        }
    }
}

/// exact tier: the last control point is solved so that the derivative at t is a chosen vector
/// of rational length; the oracle's own Bernstein derivative confirms the construction
fn tangent_q<C: CvR<Q>>(sub: &mut Sub, cfg: &Config, idx: u64) {
    let api = format!("{}::normalized_tangent", C::NAME);
    let mut rng = Rng::for_case(&format!("tangent_q/{}", C::NAME), cfg.case_seed(), idx);
    let (n, dim) = (C::DEG, C::DIM);
    let (dvec, len): (Vec<Q>, Q) = if dim == 2 {
        let (v, l) = rational_length_vec2(&mut rng, 7);
        (v.to_vec(), l)
    } else {
        let (v, l) = rational_length_vec3(&mut rng, 5);
        (v.to_vec(), l)
    };
    let at_zero = rng.chance(1, 8);
    let t = if at_zero { Q::ZERO } else { nonzero_param(&mut rng) };
    let mut pts: Vec<Vec<Q>> = (0..=n).map(|_| (0..dim).map(|_| small_q(&mut rng, 9, 4)).collect()).collect();
    let one = Q::ONE;
    let nq = Q::int(n as i64);
    for d in 0..dim {
        if at_zero {
            // B'(0) = n (P1 - P0)
            pts[1][d] = pts[0][d] + dvec[d] / nq;
        } else if n == 2 {
            // B'(t) = 2[(P1-P0)(1-t) + (P2-P1) t]
            pts[2][d] = pts[1][d] + (dvec[d] / nq - (pts[1][d] - pts[0][d]) * (one - t)) / t;
        } else {
            // B'(t) = 3[(P1-P0)(1-t)^2 + 2(P2-P1)(1-t)t + (P3-P2)t^2]
            let s = one - t;
            pts[3][d] = pts[2][d] + (dvec[d] / nq - (pts[1][d] - pts[0][d]) * s * s - Q::int(2) * (pts[2][d] - pts[1][d]) * s * t) / (t * t);
        }
    }
    let der = bern_deriv(&pts, t);
    if take_poison().is_some() {
        sub.inconclusive("poison:generator");
        return;
    }
    if (0..dim).any(|d| der[d] != dvec[d]) {
        sub.inconclusive("generator_mismatch");
        return;
    }
    let c = C::build(&mut |k, d| pts[k][d]);
    sub.saw(&api);
    let got = match guarded(|| c.v_tangent(t)) {
        Ok(g) => g.to_vec(),
        Err(e) => {
            let _ = take_poison();
            let v = violation(PROP, sub, &api, "Q", "panic", "rational_length_derivative", format!("control points {:?}, t = {}: panicked: {}", pts, t, e), cfg.case_seed(), idx);
            sub.violated(v);
            return;
        }
    };
    if let Some(p) = take_poison() {
        sub.inconclusive(&format!("poison:{}", p));
        return;
    }
    let exp: Vec<Q> = dvec.iter().map(|x| *x / len).collect();
    let mut h = H64::new();
    h.s(C::NAME).u(t.hash64());
    for p in &pts {
        for x in p {
            h.u(x.hash64());
        }
    }
    if got == exp {
        sub.sample(|| format!("{} [Q]: control points {:?}, t = {} -> {:?} (derivative {:?}, length {})", api, pts, t, got, dvec, len));
        // non-trivial: the tangent is not axis-parallel
        sub.held(h.get(), dvec.iter().filter(|x| !x.is_zero()).count() >= 2);
    } else {
        let detail = format!("control points {:?}, t = {}: normalized_tangent = {:?}, expected derivative {:?} / its length {} = {:?}", pts, t, got, dvec, len, exp);
        let v = violation(PROP, sub, &api, "Q", "wrong_value", "rational_length_derivative", detail, cfg.case_seed(), idx);
        sub.violated(v);
        count_violated(sub, h.get());
    }
}

/// exact value tier: concrete rational curves (control points often coincident, the degenerate
/// control polygons a symbolic trace never meets) at concrete parameters (exactly 0 and 1, inside,
/// outside): evaluate, evaluate_derivative and split against the Bernstein form
fn values_q<C: CvR<Q>>(sub: &mut Sub, cfg: &Config, idx: u64) {
    let mut rng = Rng::for_case(&format!("values_q/{}", C::NAME), cfg.case_seed(), idx);
    let (n, dim) = (C::DEG, C::DIM);
    let mut pts: Vec<Vec<Q>> = (0..=n).map(|_| (0..dim).map(|_| small_q(&mut rng, 9, 4)).collect()).collect();
    // coincident control points: handle on its end point, all equal, interior pair equal
    match rng.below(8) {
        0 => pts[1] = pts[0].clone(),
        1 => pts[n - 1] = pts[n].clone(),
        2 => {
            for k in 1..=n {
                pts[k] = pts[0].clone();
            }
        }
        3 => {
            pts[1] = pts[0].clone();
            pts[n - 1] = pts[n].clone();
        }
        _ => {}
    }
    let t = match rng.below(8) {
        0 => Q::ZERO,
        1 => Q::ONE,
        2 => Q::frac(1, 2),
        3 => Q::frac(-rng.range_i64(1, 6), rng.range_i64(1, 4)),
        4 => Q::ONE + Q::frac(rng.range_i64(1, 6), rng.range_i64(1, 4)),
        _ => {
            let d = rng.range_i64(2, 9);
            Q::frac(rng.range_i64(1, d - 1), d)
        }
    };
    let c = C::build(&mut |k, d| pts[k][d]);
    let mut h = H64::new();
    h.s(C::NAME).u(t.hash64());
    for p in &pts {
        for x in p {
            h.u(x.hash64());
        }
    }
    let desc = || format!("{} control points {:?}, t = {}", C::NAME, pts, t);
    let mut fail: Option<(String, &'static str, String)> = None;
    let mut set = |api: String, what: &'static str, msg: String| {
        if fail.is_none() {
            fail = Some((api, what, msg));
        }
    };
    let api_e = format!("{}::evaluate", C::NAME);
    let api_d = format!("{}::evaluate_derivative", C::NAME);
    let api_s = format!("{}::split", C::NAME);
    sub.saw(&api_e);
    sub.saw(&api_d);
    sub.saw(&api_s);
    match guarded(|| (c.v_evaluate(t).to_vec(), c.v_derivative(t).to_vec(), c.v_split(t))) {
        Err(e) => set(api_e.clone(), "panic", format!("panicked: {}", e)),
        Ok((ev, dv, halves)) => {
            let (be, bd) = (bern(&pts, t), bern_deriv(&pts, t));
            if ev != be {
                set(api_e.clone(), "value_differs_from_bernstein_form", format!("evaluate = {:?}, Bernstein form = {:?}", ev, be));
            }
            if dv != bd {
                set(api_d.clone(), "derivative_differs_from_bernstein_derivative", format!("evaluate_derivative = {:?}, derivative of the Bernstein form = {:?}", dv, bd));
            }
            let (first, second) = (halves[0], halves[1]);
            let fp: Vec<Vec<Q>> = (0..=n).map(|k| first.point(k).to_vec()).collect();
            let sp: Vec<Vec<Q>> = (0..=n).map(|k| second.point(k).to_vec()).collect();
            if fp[n] != be || sp[0] != be {
                set(api_s.clone(), "halves_do_not_meet_at_the_curve_point", format!("first half ends at {:?}, second starts at {:?}, the curve point is {:?}", fp[n], sp[0], be));
            }
            for u in [Q::ZERO, Q::frac(1, 3), Q::ONE] {
                let (a, b) = (bern(&fp, u), bern(&pts, t * u));
                let (c2, d2) = (bern(&sp, u), bern(&pts, t + (Q::ONE - t) * u));
                if a != b || c2 != d2 {
                    set(api_s.clone(), "halves_do_not_reparametrize_the_curve", format!("u = {}: first half {:?} vs curve(t u) {:?}; second half {:?} vs curve(t + (1-t) u) {:?}", u, a, b, c2, d2));
                }
            }
        }
    }
    if let Some(p) = take_poison() {
        sub.inconclusive(&format!("poison:{}", p));
        return;
    }
    match fail {
        None => {
            sub.sample(|| format!("{} [Q]: evaluate / evaluate_derivative / split agree with the Bernstein form", desc()));
            sub.held(h.get(), pts.iter().any(|p| *p != pts[0]));
        }
        Some((api, what, msg)) => {
            let class = if what == "panic" { "panic" } else { "wrong_value" };
            let v = violation(PROP, sub, &api, "Q", class, what, format!("{}: {}", desc(), msg), cfg.case_seed(), idx);
            sub.violated(v);
        }
    }
}

fn tangent_f64<C: CvR<f64>>(sub: &mut Sub, cfg: &Config, idx: u64) {
    let api = format!("{}::normalized_tangent", C::NAME);
    let mut rng = Rng::for_case(&format!("tangent_f64/{}", C::NAME), cfg.case_seed(), idx);
    let (n, dim) = (C::DEG, C::DIM);
    let pts: Vec<Vec<f64>> = (0..=n).map(|_| (0..dim).map(|_| rng.f64_in(-10.0, 10.0)).collect()).collect();
    let t = rng.f64_in(-0.5, 1.5);
    let c = C::build(&mut |k, d| pts[k][d]);
    sub.saw(&api);
    let got = match guarded(|| c.v_tangent(t)) {
        Ok(g) => g.to_vec(),
        Err(e) => {
            let v = violation(PROP, sub, &api, "f64", "panic", "random_curve", format!("control points {:?}, t = {}: panicked: {}", pts, t, e), cfg.case_seed(), idx);
            sub.violated(v);
            return;
        }
    };
    let der = bern_deriv(&pts, t);
    let len = der.iter().map(|x| x * x).sum::<f64>().sqrt();
    // |control coordinates| <= 10, |t|,|1-t| <= 1.5: every term of the derivative is below 3*2.25*20
    let scale = 135.0;
    if len < 1e-3 * scale {
        sub.inconclusive("ill_conditioned:short_derivative");
        return;
    }
    let tol = 1024.0 * f64::EPSILON * (scale / len).max(1.0);
    let mut h = H64::new();
    h.s(C::NAME).f(t);
    for p in &pts {
        for x in p {
            h.f(*x);
        }
    }
    for d in 0..dim {
        let e = der[d] / len;
        if !((got[d] - e).abs() <= tol) {
            let detail = format!("control points {:?}, t = {}: normalized_tangent = {:?}, expected {:?} (derivative {:?} / {}), tolerance {:e}", pts, t, got, der.iter().map(|x| x / len).collect::<Vec<_>>(), der, len, tol);
            let v = violation(PROP, sub, &api, "f64", "wrong_value", "random_curve", detail, cfg.case_seed(), idx);
            sub.violated(v);
            count_violated(sub, h.get());
            return;
        }
    }
    sub.sample(|| format!("{} [f64]: control points {:?}, t = {} -> {:?}", api, pts, t, got));
    sub.held(h.get(), true);
}

// ------------------------------------------------------------------ quarter circle / circle

trait Fl: El + Into<f64> + Copy {
    const TY: &'static str;
    /// rounding slack for "equal to the oracle's f64 evaluation"
    const SLACK: f64;
    fn of(x: f64) -> Self;
}
impl Fl for f32 {
    const TY: &'static str = "f32";
    const SLACK: f64 = 64.0 * f32::EPSILON as f64;
    fn of(x: f64) -> f32 {
        x as f32
    }
}
impl Fl for f64 {
    const TY: &'static str = "f64";
    const SLACK: f64 = 64.0 * f64::EPSILON;
    fn of(x: f64) -> f64 {
        x
    }
}

/// float value tier: the same statement as values_q on f32 / f64, because a float is what a user's
/// curve is made of and an exact type cannot show a NaN: control points are short dyadics (k/4) and
/// the parameter is one of {0, -0.0, 1, 1/2, 1/4, 3/4, -1/2, 3/2, k/8}, so the Bernstein form and
/// every reasonable evaluation order are exact or within a few ulps; anything not finite fails.
fn values_float<F: Fl, C: CvR<F>>(sub: &mut Sub, cfg: &Config, idx: u64) {
    let mut rng = Rng::for_case(&format!("values_float/{}/{}", C::NAME, <F as Fl>::TY), cfg.case_seed(), idx);
    let (n, dim) = (C::DEG, C::DIM);
    let mut pts: Vec<Vec<f64>> = (0..=n).map(|_| (0..dim).map(|_| rng.range_i64(-36, 36) as f64 / 4.0).collect()).collect();
    match rng.below(8) {
        0 => pts[1] = pts[0].clone(),
        1 => pts[n - 1] = pts[n].clone(),
        2 => {
            for k in 1..=n {
                pts[k] = pts[0].clone();
            }
        }
        _ => {}
    }
    let t: f64 = match rng.below(10) {
        0 => 0.0,
        1 => -0.0,
        2 => 1.0,
        3 => 0.5,
        4 => 0.25,
        5 => 0.75,
        6 => -0.5,
        7 => 1.5,
        _ => rng.range_i64(-4, 12) as f64 / 8.0,
    };
    let c = C::build(&mut |k, d| F::of(pts[k][d]));
    let mut h = H64::new();
    h.s(C::NAME).s(<F as Fl>::TY).f(t);
    for p in &pts {
        for x in p {
            h.f(*x);
        }
    }
    let desc = || format!("{} control points {:?}, t = {:?}", C::NAME, pts, t);
    let api_e = format!("{}::evaluate", C::NAME);
    let api_d = format!("{}::evaluate_derivative", C::NAME);
    let api_s = format!("{}::split", C::NAME);
    sub.saw(&api_e);
    sub.saw(&api_d);
    sub.saw(&api_s);
    let to = |p: C::P| -> Vec<f64> { p.to_vec().into_iter().map(|x| x.into()).collect() };
    let maxc = pts.iter().flatten().fold(1.0f64, |m, x| m.max(x.abs()));
    let tol = F::SLACK * maxc * t.abs().max(1.0).powi(n as i32) * 8.0;
    let near = |a: &[f64], b: &[f64]| a.iter().zip(b).all(|(x, y)| (x - y).abs() <= tol);
    let mut fail: Option<(String, &'static str, String)> = None;
    match guarded(|| (c.v_evaluate(F::of(t)), c.v_derivative(F::of(t)), c.v_split(F::of(t)))) {
        Err(e) => fail = Some((api_e.clone(), "panic", format!("panicked: {}", e))),
        Ok((ev, dv, halves)) => {
            let (ev, dv) = (to(ev), to(dv));
            let (be, bd) = (bern(&pts, t), bern_deriv(&pts, t));
            let fp: Vec<Vec<f64>> = (0..=n).map(|k| to(halves[0].point(k))).collect();
            let sp: Vec<Vec<f64>> = (0..=n).map(|k| to(halves[1].point(k))).collect();
            if !near(&ev, &be) {
                fail = Some((api_e.clone(), "value_differs_from_bernstein_form", format!("evaluate = {:?}, Bernstein form = {:?} (tolerance {:e})", ev, be, tol)));
            } else if !dv.iter().zip(&bd).all(|(x, y)| (x - y).abs() <= tol * (n as f64) * 2.0) {
                fail = Some((api_d.clone(), "derivative_differs_from_bernstein_derivative", format!("evaluate_derivative = {:?}, derivative of the Bernstein form = {:?}", dv, bd)));
            } else if !near(&fp[n], &be) || !near(&sp[0], &be) {
                fail = Some((api_s.clone(), "halves_do_not_meet_at_the_curve_point", format!("first half {:?}, second half {:?}, the curve point is {:?}", fp, sp, be)));
            } else {
                for u in [0.0, 0.5, 1.0] {
                    let (a, b) = (bern(&fp, u), bern(&pts, t * u));
                    let (c2, d2) = (bern(&sp, u), bern(&pts, t + (1.0 - t) * u));
                    if !near(&a, &b) || !near(&c2, &d2) {
                        fail = Some((api_s.clone(), "halves_do_not_reparametrize_the_curve", format!("u = {}: first half {:?} gives {:?} vs curve(t u) {:?}; second half {:?} gives {:?} vs curve(t + (1-t) u) {:?}", u, fp, a, b, sp, c2, d2)));
                        break;
                    }
                }
            }
        }
    }
    match fail {
        None => {
            sub.sample(|| format!("{} [{}]: evaluate / evaluate_derivative / split agree with the Bernstein form", desc(), <F as Fl>::TY));
            sub.held(h.get(), pts.iter().any(|p| *p != pts[0]));
        }
        Some((api, what, msg)) => {
            let class = if what == "panic" { "panic" } else { "wrong_value" };
            let v = violation(PROP, sub, &api, <F as Fl>::TY, class, what, format!("{}: {}", desc(), msg), cfg.case_seed(), idx);
            sub.violated(v);
        }
    }
}

const CIRCLE_PARAMS: u64 = 10_001;
const RADIUS_TOL: f64 = 3.0e-4;

fn to64<F: Fl, C: Cv<F>>(c: &C) -> Vec<Vec<f64>> {
    (0..=C::DEG).map(|k| c.point(k).to_vec().into_iter().map(|x| x.into()).collect()).collect()
}
fn norm(p: &[f64]) -> f64 {
    p.iter().map(|x| x * x).sum::<f64>().sqrt()
}

/// the oracle's own quarter-circle point: cubic with the tangent-length constant 4(sqrt2-1)/3
fn quarter_ref(t: f64) -> [f64; 2] {
    let k = 4.0 * (2.0f64.sqrt() - 1.0) / 3.0;
    let p = bern(&[vec![1.0, 0.0], vec![1.0, k], vec![k, 1.0], vec![0.0, 1.0]], t);
    [p[0], p[1]]
}

fn quarter_case<F: Fl, C: CvR<F>>(sub: &mut Sub, cfg: &Config, idx: u64, make: fn() -> C) -> bool {
    let api = format!("{}::unit_quarter_circle", C::NAME);
    sub.saw(&api);
    let t64 = idx as f64 / (CIRCLE_PARAMS - 1) as f64;
    let t = if idx == CIRCLE_PARAMS - 1 { F::of(1.0) } else { F::of(t64) };
    let r = guarded(|| {
        let c = make();
        (c, c.v_evaluate(t))
    });
    let (c, p) = match r {
        Ok(x) => x,
        Err(e) => {
            let v = violation(PROP, sub, &api, F::TY, "panic", "quarter_circle", format!("t = {}: panicked: {}", t64, e), cfg.case_seed(), idx);
            sub.add_violation(v);
            return false;
        }
    };
    let pts = to64::<F, C>(&c);
    let p: Vec<f64> = p.to_vec().into_iter().map(|x| x.into()).collect();
    let mut bad: Option<(&str, String)> = None;
    let mut start = vec![0.0; C::DIM];
    start[0] = 1.0;
    let mut end = vec![0.0; C::DIM];
    end[1] = 1.0;
    if pts[0] != start || pts[3] != end {
        bad = Some(("endpoints_not_unit_axes", format!("start = {:?}, end = {:?}, expected (1,0) and (0,1)", pts[0], pts[3])));
    } else if C::DIM == 3 && pts.iter().any(|q| q[2] != 0.0) {
        bad = Some(("z_not_zero", format!("control points {:?}", pts)));
    } else {
        // radius at t: vek's evaluate in the subject type, and the oracle's evaluation of vek's control points
        let own = bern(&pts, t.into());
        for (who, q) in [("vek evaluate", &p), ("oracle evaluation of vek's control points", &own)] {
            let r = norm(q);
            if !((r - 1.0).abs() <= RADIUS_TOL) {
                bad = Some(("radius_off_by_more_than_0.03_percent", format!("t = {}: {} gives {:?}, radius {} (control points {:?})", t64, who, q, r, pts)));
                break;
            }
        }
    }
    match bad {
        None => true,
        Some((what, detail)) => {
            let v = violation(PROP, sub, &api, F::TY, "wrong_value", what, detail, cfg.case_seed(), idx);
            sub.add_violation(v);
            false
        }
    }
}

fn circle_case<F: Fl, C: CvR<F>>(sub: &mut Sub, cfg: &Config, idx: u64, make: fn() -> [C; 4]) -> bool {
    let api = format!("{}::unit_circle", C::NAME);
    sub.saw(&api);
    let t64 = idx as f64 / (CIRCLE_PARAMS - 1) as f64;
    let t = if idx == CIRCLE_PARAMS - 1 { F::of(1.0) } else { F::of(t64) };
    let r = guarded(|| {
        let cs = make();
        let ps: Vec<Vec<f64>> = cs.iter().map(|c| c.v_evaluate(t).to_vec().into_iter().map(|x| x.into()).collect()).collect();
        ps
    });
    let ps = match r {
        Ok(x) => x,
        Err(e) => {
            let v = violation(PROP, sub, &api, F::TY, "panic", "unit_circle", format!("t = {}: panicked: {}", t64, e), cfg.case_seed(), idx);
            sub.add_violation(v);
            return false;
        }
    };
    // (north-east, north-west, south-west, south-east): images of the NE arc under the axis symmetries
    let signs = [(1.0, 1.0), (-1.0, 1.0), (-1.0, -1.0), (1.0, -1.0)];
    let names = ["north_east", "north_west", "south_west", "south_east"];
    let q = quarter_ref(t.into());
    for k in 0..4 {
        let (sx, sy) = signs[k];
        let p = &ps[k];
        let r = norm(p);
        let exp = [sx * q[0], sy * q[1]];
        let mut what = None;
        if !((r - 1.0).abs() <= RADIUS_TOL) {
            what = Some("radius_off_by_more_than_0.03_percent");
        } else if !((p[0] - exp[0]).abs() <= F::SLACK && (p[1] - exp[1]).abs() <= F::SLACK) || (C::DIM == 3 && p[2] != 0.0) {
            what = Some("quadrant_is_not_the_mirrored_quarter_circle");
        }
        if let Some(what) = what {
            let detail = format!("t = {}: {} arc evaluates to {:?} (radius {}), expected the quarter-circle point mirrored to {:?}", t64, names[k], p, r, exp);
            let v = violation(PROP, sub, &api, F::TY, "wrong_value", what, detail, cfg.case_seed(), idx);
            sub.add_violation(v);
            return false;
        }
    }
    true
}

// ------------------------------------------------------------------ main

fn main() {
    let cfg = Config::from_args(PROP);
    let mut rep = Report::new(cfg.clone());

    {
        let mut s = Sub::new(
            "bernstein_trace",
            "one Sym-traced execution per (curve type, entry point, claim): control-point coordinates, t and u are free symbols (extrapolation included); every logged output expression is compared with the Bernstein definition by polynomial identity testing at 6 random points of GF(2^61-1); evaluate_derivative is compared with the dual-number derivative (d/dt) of the logged evaluate expression at 6 random points; distinct = distinct (entry point, claim) pairs",
        )
        .with_floor(56);
        let mut req: Vec<String> = Vec::new();
        for (b, dim) in [("QuadraticBezier2", 2), ("QuadraticBezier3", 3), ("CubicBezier2", 2), ("CubicBezier3", 3)] {
            for m in ["evaluate", "evaluate_derivative", "split", "matrix", "reversed", "reverse"] {
                req.push(format!("{}::{}", b, m));
            }
            for ax in 0..dim {
                req.push(format!("{}::flipped_{}", b, AXES[ax]));
                req.push(format!("{}::flip_{}", b, AXES[ax]));
            }
        }
        s = s.require(&req.iter().map(|x| x.as_str()).collect::<Vec<_>>());
        if cfg.wants("bernstein_trace") {
            trace_curve::<QuadraticBezier2<Sym>>(&mut s, &cfg);
            trace_curve::<QuadraticBezier3<Sym>>(&mut s, &cfg);
            trace_curve::<CubicBezier2<Sym>>(&mut s, &cfg);
            trace_curve::<CubicBezier3<Sym>>(&mut s, &cfg);
        }
        rep.push(s);
    }
    {
        let mut s = Sub::new(
            "conversions_trace",
            "Sym-traced degree elevation (into_cubic, From<Quadratic>), From<LineSegment>/From<Range> (curve(t) = start + t(end-start); the constants 1/2, 1/3, 2/3 are exact in GF(p)), into_2d/into_3d/From between dimensions: converted.evaluate(t) and the converted control points vs the source curve's Bernstein form, PIT; distinct = distinct (impl, claim) pairs",
        )
        .with_floor(20)
        .require(&[
            "QuadraticBezier2::into_cubic",
            "QuadraticBezier3::into_cubic",
            "From<QuadraticBezier2> for CubicBezier2",
            "From<QuadraticBezier3> for CubicBezier3",
            "From<LineSegment2> for QuadraticBezier2",
            "From<LineSegment3> for QuadraticBezier3",
            "From<LineSegment2> for CubicBezier2",
            "From<LineSegment3> for CubicBezier3",
            "From<Range<Vec2>> for QuadraticBezier2",
            "From<Range<Vec3>> for QuadraticBezier3",
            "From<Range<Vec2>> for CubicBezier2",
            "From<Range<Vec3>> for CubicBezier3",
            "QuadraticBezier2::into_3d",
            "QuadraticBezier3::into_2d",
            "CubicBezier2::into_3d",
            "CubicBezier3::into_2d",
        ]);
        if cfg.wants("conversions_trace") {
            elevation!(&mut s, &cfg, QuadraticBezier2, CubicBezier2);
            elevation!(&mut s, &cfg, QuadraticBezier3, CubicBezier3);
            from_segment!(&mut s, &cfg, QuadraticBezier2, LineSegment2, "LineSegment2", Vec2, "Vec2");
            from_segment!(&mut s, &cfg, QuadraticBezier3, LineSegment3, "LineSegment3", Vec3, "Vec3");
            from_segment!(&mut s, &cfg, CubicBezier2, LineSegment2, "LineSegment2", Vec2, "Vec2");
            from_segment!(&mut s, &cfg, CubicBezier3, LineSegment3, "LineSegment3", Vec3, "Vec3");
            dim_change!(&mut s, &cfg, QuadraticBezier2, QuadraticBezier3);
            dim_change!(&mut s, &cfg, CubicBezier2, CubicBezier3);
        }
        rep.push(s);
    }
    {
        let mut s = Sub::new(
            "mat_mul_trace",
            "Sym-traced Mat2/Mat3/Mat4 (row- and column-major, all entries free symbols) * Bezier: the product's control points and product.evaluate(t) vs the naive matrix action on the control points / on the Bernstein point (N = DIM: linear; N = DIM+1: affine with w = 1, w dropped), PIT; distinct = the 16 impls",
        )
        .with_floor(16);
        if cfg.wants("mat_mul_trace") {
            macro_rules! go { ($($M:ident * $C:ident),+) => {$( mat_trace::<$M<Sym>, $C<Sym>>(&mut s, &cfg); )+} }
            go!(
                Rows2 * QuadraticBezier2, Cols2 * QuadraticBezier2, Rows3 * QuadraticBezier2, Cols3 * QuadraticBezier2,
                Rows2 * CubicBezier2, Cols2 * CubicBezier2, Rows3 * CubicBezier2, Cols3 * CubicBezier2,
                Rows3 * QuadraticBezier3, Cols3 * QuadraticBezier3, Rows4 * QuadraticBezier3, Cols4 * QuadraticBezier3,
                Rows3 * CubicBezier3, Cols3 * CubicBezier3, Rows4 * CubicBezier3, Cols4 * CubicBezier3
            );
        }
        rep.push(s);
    }
    {
        let nm = cfg.n(400, 40_000);
        let proto = Sub::new(
            "mat_mul_values",
            "exact rationals: Mat2/Mat3/Mat4 (both layouts) * Quadratic/Cubic Bezier 2D/3D with matrices of special structure (index mod 8: zero, identity, a zero row, a zero column, rank one, projection onto a coordinate hyperplane, two random) — singular matrices are legal maps — and random control points: the product's control points equal the naive action on each control point (N = DIM: linear; N = DIM+1: affine, last row (0,..,0,1)); a panic (the overflow-checked profile has debug assertions) is a violation; non-trivial = not the identity",
        )
        .with_floor(nm * 8);
        let s = run_cases(&cfg, proto, nm, |s, i| {
            macro_rules! go { ($($M:ident * $C:ident),+) => {$( mat_values::<$M<Q>, $C<Q>>(s, &cfg, i); )+} }
            go!(
                Rows2 * QuadraticBezier2, Cols2 * QuadraticBezier2, Rows3 * QuadraticBezier2, Cols3 * QuadraticBezier2,
                Rows2 * CubicBezier2, Cols2 * CubicBezier2, Rows3 * CubicBezier2, Cols3 * CubicBezier2,
                Rows3 * QuadraticBezier3, Cols3 * QuadraticBezier3, Rows4 * QuadraticBezier3, Cols4 * QuadraticBezier3,
                Rows3 * CubicBezier3, Cols3 * CubicBezier3, Rows4 * CubicBezier3, Cols4 * CubicBezier3
            );
        });
        rep.push(s);
    }
    {
        let mut s = Sub::new(
            "data_movement_tag",
            "curves of opaque Tag tokens (one id per coordinate) through into_vec3/into_vec4, From<Bezier> for Vec, into_tuple, into_array, From<Vec> for Bezier, reversed/reverse, into_2d/into_3d: the ids must come out in control-point order (reversed order; x,y kept and z = ZERO / dropped); distinct = distinct (entry point, claim) pairs",
        )
        .with_floor(32);
        if cfg.wants("data_movement_tag") {
            tag_moves!(&mut s, &cfg, QuadraticBezier2, Vec3, into_vec3, "Vec3<Vec2>", (a, b, c));
            tag_moves!(&mut s, &cfg, QuadraticBezier3, Vec3, into_vec3, "Vec3<Vec3>", (a, b, c));
            tag_moves!(&mut s, &cfg, CubicBezier2, Vec4, into_vec4, "Vec4<Vec2>", (a, b, c, d));
            tag_moves!(&mut s, &cfg, CubicBezier3, Vec4, into_vec4, "Vec4<Vec3>", (a, b, c, d));
            tag_dims!(&mut s, &cfg, QuadraticBezier2, QuadraticBezier3);
            tag_dims!(&mut s, &cfg, CubicBezier2, CubicBezier3);
        }
        rep.push(s);
    }

    {
        let nv = cfg.n(1_000, 100_000);
        let proto = Sub::new(
            "values_q",
            "exact rationals: random control points, half of the curves with coincident control points (handle on its end point, all equal), parameter t from {0, 1, 1/2, inside, below 0, above 1}: evaluate == Bernstein form, evaluate_derivative == derivative of the Bernstein form, split halves meet at the curve point and re-parametrize the curve (u in {0, 1/3, 1}); non-trivial = control points not all equal; distinct by hash of control points and t",
        )
        .with_floor(nv * 2)
        .require(&["QuadraticBezier2::evaluate", "CubicBezier3::evaluate_derivative", "CubicBezier2::split", "QuadraticBezier3::split"]);
        let s = run_cases(&cfg, proto, nv, |s, i| {
            values_q::<QuadraticBezier2<Q>>(s, &cfg, i);
            values_q::<QuadraticBezier3<Q>>(s, &cfg, i);
            values_q::<CubicBezier2<Q>>(s, &cfg, i);
            values_q::<CubicBezier3<Q>>(s, &cfg, i);
        });
        rep.push(s);
    }
    {
        let nv = cfg.n(1_000, 100_000);
        let proto = Sub::new(
            "values_float",
            "f32 and f64: control points short dyadics k/4 (|k| <= 36, an eighth of the curves with coincident control points), parameter t from {0, -0.0, 1, 1/2, 1/4, 3/4, -1/2, 3/2, k/8 in [-1/2, 3/2]}: evaluate, evaluate_derivative and split (halves meet at the curve point and re-parametrize the curve at u in {0, 1/2, 1}) against the oracle's f64 Bernstein form within 512 eps * max|coordinate| * max(1,|t|)^degree; a NaN or infinity fails every comparison; non-trivial = control points not all equal; distinct by hash of type, control points and t",
        )
        .with_floor(nv * 4)
        .require(&["QuadraticBezier2::split", "QuadraticBezier3::split", "CubicBezier2::split", "CubicBezier3::split", "QuadraticBezier2::evaluate", "CubicBezier3::evaluate_derivative"]);
        let s = run_cases(&cfg, proto, nv, |s, i| {
            values_float::<f32, QuadraticBezier2<f32>>(s, &cfg, i);
            values_float::<f32, QuadraticBezier3<f32>>(s, &cfg, i);
            values_float::<f32, CubicBezier2<f32>>(s, &cfg, i);
            values_float::<f32, CubicBezier3<f32>>(s, &cfg, i);
            values_float::<f64, QuadraticBezier2<f64>>(s, &cfg, i);
            values_float::<f64, QuadraticBezier3<f64>>(s, &cfg, i);
            values_float::<f64, CubicBezier2<f64>>(s, &cfg, i);
            values_float::<f64, CubicBezier3<f64>>(s, &cfg, i);
        });
        rep.push(s);
    }
    let nt = cfg.n(400, 40_000);
    {
        let proto = Sub::new(
            "tangent_q",
            "exact rationals: random control points and parameter t (inside, 0, 1, extrapolating), the last control point solved so that the derivative at t is a chosen vector of rational length (Pythagorean parametrisation); normalized_tangent must equal derivative/length exactly; non-trivial = tangent not axis-parallel; distinct by hash of control points and t",
        )
        .with_floor(nt)
        .require(&["QuadraticBezier2::normalized_tangent", "QuadraticBezier3::normalized_tangent", "CubicBezier2::normalized_tangent", "CubicBezier3::normalized_tangent"]);
        let s = run_cases(&cfg, proto, nt, |s, i| {
            tangent_q::<QuadraticBezier2<Q>>(s, &cfg, i);
            tangent_q::<QuadraticBezier3<Q>>(s, &cfg, i);
            tangent_q::<CubicBezier2<Q>>(s, &cfg, i);
            tangent_q::<CubicBezier3<Q>>(s, &cfg, i);
        });
        rep.push(s);
    }
    {
        let proto = Sub::new(
            "tangent_f64",
            "random f64 curves (coordinates in [-10,10], t in [-0.5,1.5]): normalized_tangent vs the oracle's Bernstein derivative divided by its length, tolerance 1024*eps*max(1, scale/length); derivative shorter than 1e-3*scale -> inconclusive (ill-conditioned)",
        )
        .with_floor(nt * 2);
        let s = run_cases(&cfg, proto, nt, |s, i| {
            tangent_f64::<QuadraticBezier2<f64>>(s, &cfg, i);
            tangent_f64::<QuadraticBezier3<f64>>(s, &cfg, i);
            tangent_f64::<CubicBezier2<f64>>(s, &cfg, i);
            tangent_f64::<CubicBezier3<f64>>(s, &cfg, i);
        });
        rep.push(s);
    }
    {
        let mut proto = Sub::new(
            "quarter_circle",
            "unit_quarter_circle() in f32 and f64, 2D and 3D, at the 10 001 parameters i/10000: start == (1,0), end == (0,1) (z == 0), and | |p| - 1 | <= 3e-4 both for vek's evaluate and for the oracle's evaluation of vek's control points; one case per parameter (all four instantiations must pass); non-trivial = interior parameter; enumeration of the whole grid",
        )
        .with_floor(9_999)
        .require(&["CubicBezier2::unit_quarter_circle", "CubicBezier3::unit_quarter_circle"]);
        proto.exhaustive = true;
        let s = run_cases(&cfg, proto, CIRCLE_PARAMS, |s, i| {
            let ok = quarter_case::<f64, CubicBezier2<f64>>(s, &cfg, i, CubicBezier2::<f64>::unit_quarter_circle)
                & quarter_case::<f32, CubicBezier2<f32>>(s, &cfg, i, CubicBezier2::<f32>::unit_quarter_circle)
                & quarter_case::<f64, CubicBezier3<f64>>(s, &cfg, i, CubicBezier3::<f64>::unit_quarter_circle)
                & quarter_case::<f32, CubicBezier3<f32>>(s, &cfg, i, CubicBezier3::<f32>::unit_quarter_circle);
            if ok {
                s.held_enumerated(i > 0 && i < CIRCLE_PARAMS - 1);
            } else {
                s.evaluations += 1;
                s.conclusive += 1;
                if i > 0 && i < CIRCLE_PARAMS - 1 {
                    s.nontrivial += 1;
                    s.distinct_enumerated += 1;
                }
            }
        });
        rep.push(s);
    }
    {
        let mut proto = Sub::new(
            "unit_circle",
            "unit_circle() in f32 and f64, 2D and 3D, at the 10 001 parameters i/10000: arc k of (NE, NW, SW, SE) must evaluate to the oracle's own quarter-circle point mirrored into that quadrant (within 64 eps) and stay within 0.03% of radius 1; one case per parameter; enumeration of the whole grid",
        )
        .with_floor(9_999)
        .require(&["CubicBezier2::unit_circle", "CubicBezier3::unit_circle"]);
        proto.exhaustive = true;
        let s = run_cases(&cfg, proto, CIRCLE_PARAMS, |s, i| {
            let ok = circle_case::<f64, CubicBezier2<f64>>(s, &cfg, i, CubicBezier2::<f64>::unit_circle)
                & circle_case::<f32, CubicBezier2<f32>>(s, &cfg, i, CubicBezier2::<f32>::unit_circle)
                & circle_case::<f64, CubicBezier3<f64>>(s, &cfg, i, CubicBezier3::<f64>::unit_circle)
                & circle_case::<f32, CubicBezier3<f32>>(s, &cfg, i, CubicBezier3::<f32>::unit_circle);
            if ok {
                s.held_enumerated(i > 0 && i < CIRCLE_PARAMS - 1);
            } else {
                s.evaluations += 1;
                s.conclusive += 1;
                if i > 0 && i < CIRCLE_PARAMS - 1 {
                    s.nontrivial += 1;
                    s.distinct_enumerated += 1;
                }
            }
        });
        rep.push(s);
    }
    std::process::exit(rep.finish());
}

//! C02 — vector operators and reductions act element-wise on every vector type.
//!
//! Trace sub-checks: vek's real operator impls run once on vectors of distinct free `Sym`
//! symbols (filled and read through the raw public fields); output lane i must be *exactly* the
//! node `Op(x_i, y_i)` / `Op(x_i, s)` / `MulAdd(x_i, y_i, z_i)` (structural), reductions are
//! compared as polynomials (PIT) or as folds over the element sequence.  Data-movement
//! sub-checks use `Tag`.  Order-dependent functions (min/max/cmp*/reduce_min..) and the impls that
//! only exist for primitives run on `Q` and native ints/floats against per-lane scalar results,
//! panic-equivalent in both profiles.
#![allow(clippy::all)]
#![allow(unused_macros, unused_imports, dead_code)]

use monitors::fp::Fp;
use monitors::prng::{Rng, H64};
use monitors::report::{guarded, run_cases, take_poison, Config, Report, Sub};
use monitors::sym::{sym_reset, Node, Op, Sym};
use monitors::tag::{Tag, TAG_DEFAULT, TAG_ONE, TAG_ZERO};
use monitors::Q;
use num_traits::MulAdd;
use props::*;
use std::iter::FromIterator;
use vek::vec::repr_c::*;

const PROP: &str = "C02";

// ------------------------------------------------------------------------------------------
// kind lists.  `dot`/`nodot`: vec_impl_spatial! (dot) is only instantiated for Vec* and Extent*.
// `small`/`big`: Vec32/Vec64 are only instantiated with Sym, Tag, bool and i32.

macro_rules! for_kinds_ext {
    ($m:ident) => {
        $m!{Vec2 2 dot small} $m!{Vec3 3 dot small} $m!{Vec4 4 dot small} $m!{Vec8 8 dot small}
        $m!{Vec16 16 dot small} $m!{Vec32 32 dot big} $m!{Vec64 64 dot big}
        $m!{Extent2 2 dot small} $m!{Extent3 3 dot small}
        $m!{Rgb 3 nodot small} $m!{Rgba 4 nodot small} $m!{Uv 2 nodot small} $m!{Uvw 3 nodot small}
    };
}
macro_rules! when {
    (dot dot $b:block) => { $b };
    (nodot dot $b:block) => {};
    (small small $b:block) => { $b };
    (big small $b:block) => {};
}

/// `with_idx!(N, cb, args..)` expands to `cb!{[args..] 0 1 .. N-1}`
macro_rules! with_idx {
    (2, $m:ident, $($a:tt)*) => { $m!{[$($a)*] 0 1} };
    (3, $m:ident, $($a:tt)*) => { $m!{[$($a)*] 0 1 2} };
    (4, $m:ident, $($a:tt)*) => { $m!{[$($a)*] 0 1 2 3} };
    (8, $m:ident, $($a:tt)*) => { $m!{[$($a)*] 0 1 2 3 4 5 6 7} };
    (16, $m:ident, $($a:tt)*) => { $m!{[$($a)*] 0 1 2 3 4 5 6 7 8 9 10 11 12 13 14 15} };
    (32, $m:ident, $($a:tt)*) => { $m!{[$($a)*] 0 1 2 3 4 5 6 7 8 9 10 11 12 13 14 15 16 17 18 19 20 21 22 23 24 25 26 27 28 29 30 31} };
    (64, $m:ident, $($a:tt)*) => { $m!{[$($a)*] 0 1 2 3 4 5 6 7 8 9 10 11 12 13 14 15 16 17 18 19 20 21 22 23 24 25 26 27 28 29 30 31 32 33 34 35 36 37 38 39 40 41 42 43 44 45 46 47 48 49 50 51 52 53 54 55 56 57 58 59 60 61 62 63} };
}
macro_rules! cb_new { ([$V:ident $f:ident] $($i:tt)+) => { $V::new($($f($i)),+) }; }
macro_rules! cb_tuple { ([$f:ident] $($i:tt)+) => { ($($f($i)),+) }; }
macro_rules! cb_untuple { ([$t:ident] $($i:tt)+) => { vec![$($t.$i),+] }; }
macro_rules! cb_array { ([$f:ident] $($i:tt)+) => { [$($f($i)),+] }; }

// ------------------------------------------------------------------------------------------
// element abstraction for value comparisons

trait El: Copy + std::fmt::Debug + 'static {
    /// equality used to compare an observed lane with the expected lane (NaN == NaN)
    fn same(self, o: Self) -> bool;
    fn nan(self) -> bool {
        false
    }
    fn hb(self) -> u64;
}
impl El for bool {
    fn same(self, o: bool) -> bool {
        self == o
    }
    fn hb(self) -> u64 {
        self as u64
    }
}
impl El for Q {
    fn same(self, o: Q) -> bool {
        self == o
    }
    fn hb(self) -> u64 {
        self.hash64()
    }
}
impl El for Tag {
    fn same(self, o: Tag) -> bool {
        self == o
    }
    fn hb(self) -> u64 {
        self.0 as u64
    }
}
impl El for Sym {
    fn same(self, o: Sym) -> bool {
        self == o
    }
    fn hb(self) -> u64 {
        self.0 as u64
    }
}
macro_rules! el_int { ($($T:ty),+) => {$(
    impl El for $T {
        fn same(self, o: $T) -> bool { self == o }
        fn hb(self) -> u64 { self as u64 }
    }
    impl El for std::num::Wrapping<$T> {
        fn same(self, o: Self) -> bool { self == o }
        fn hb(self) -> u64 { self.0 as u64 }
    }
)+} }
el_int!(i8, u8, i16, u16, i32, u32, i64, u64);
macro_rules! el_float { ($($T:ty),+) => {$(
    impl El for $T {
        fn same(self, o: $T) -> bool { (self.is_nan() && o.is_nan()) || self.to_bits() == o.to_bits() }
        fn nan(self) -> bool { self.is_nan() }
        fn hb(self) -> u64 { self.to_bits() as u64 }
    }
)+} }
el_float!(f32, f64);

fn hash_els<T: El>(h: &mut H64, xs: &[T]) {
    for x in xs {
        h.u(x.hb());
    }
}

/// Decide one observed call: `got` (lanes read through the raw fields, or the panic message)
/// against `exp` (`None` = the per-lane scalar operation panics, so the vector form must too).
#[allow(clippy::too_many_arguments)]
fn judge<T: El>(sub: &mut Sub, cfg: &Config, idx: u64, api: &str, ty: &str, h: u64, got: Result<Vec<T>, String>, exp: Option<Vec<T>>, inputs: &dyn Fn() -> String) {
    sub.saw(api);
    if let Some(p) = take_poison() {
        sub.inconclusive(&format!("poison:{}", p));
        return;
    }
    let mut hh = H64::new();
    hh.s(api).s(ty).u(h);
    let seed = cfg.case_seed();
    match (got, exp) {
        (Ok(g), Some(e)) => {
            if g.len() != e.len() {
                let v = violation(PROP, sub, api, ty, "wrong_value", "arity", format!("{} [{}] {}: {} lanes, expected {}", api, ty, inputs(), g.len(), e.len()), seed, idx);
                sub.violated(v);
                return;
            }
            match (0..g.len()).find(|&i| !g[i].same(e[i])) {
                Some(i) => {
                    let v = violation(
                        PROP,
                        sub,
                        api,
                        ty,
                        "wrong_value",
                        "lane_mismatch",
                        format!("{} [{}] {}: lane {} is {:?}, the per-element definition gives {:?}; vek returned {:?}, expected {:?}", api, ty, inputs(), i, g[i], e[i], g, e),
                        seed,
                        idx,
                    );
                    sub.violated(v);
                }
                None => {
                    sub.sample(|| format!("{} [{}] {} -> {:?}", api, ty, inputs(), g));
                    sub.held(hh.get(), true);
                }
            }
        }
        (Err(m), Some(e)) => {
            let v = violation(PROP, sub, api, ty, "panic", "unexpected_panic", format!("{} [{}] {}: panicked ({}) but every per-lane scalar operation succeeds, expected {:?}", api, ty, inputs(), m, e), seed, idx);
            sub.violated(v);
        }
        (Ok(g), None) => {
            let v = violation(PROP, sub, api, ty, "missing_panic", "scalar_op_panics", format!("{} [{}] {}: returned {:?} although the scalar operation panics on at least one lane in this profile", api, ty, inputs(), g), seed, idx);
            sub.violated(v);
        }
        (Err(_), None) => {
            sub.saw("(vector form panics where the scalar operation panics)");
            sub.held(hh.get(), true);
        }
    }
}

// ------------------------------------------------------------------------------------------
// ops_trace: structural Sym traces of every operator form

fn mk<V: VecX<Sym>>(base: usize) -> V {
    V::from_fn(|i| Sym::var((base + i) as u32))
}

fn settle<V: VecX<Sym>>(sub: &mut Sub, cfg: &Config, api: &str, case: &str, r: Result<V, String>, exp: &[Sym]) {
    match r {
        Ok(v) => {
            decide_structural(PROP, sub, api, "Sym", case, &v.to_vec(), exp, cfg.case_seed(), 0);
        }
        Err(e) => {
            let _ = take_poison();
            sub.saw(api);
            let v = violation(PROP, sub, api, "Sym", "panic", case, format!("{} [{}]: panicked on free symbols: {}", api, case, e), cfg.case_seed(), 0);
            sub.violated(v);
        }
    }
}

struct BinForms<V> {
    vv: fn(V, V) -> V,
    vs: fn(V, Sym) -> V,
    vr: fn(V, &V) -> V,
    rv: fn(&V, V) -> V,
    rr: fn(&V, &V) -> V,
    rs: fn(&V, Sym) -> V,
    rrs: fn(&V, &Sym) -> V,
    avv: fn(&mut V, V),
    avs: fn(&mut V, Sym),
}
macro_rules! bin_forms {
    ($V:ty, $Tr:ident, $m:ident, $TrA:ident, $ma:ident) => {
        BinForms::<$V> {
            vv: |a, b| ::std::ops::$Tr::$m(a, b),
            vs: |a, s| ::std::ops::$Tr::$m(a, s),
            vr: |a, b| ::std::ops::$Tr::$m(a, b),
            rv: |a, b| ::std::ops::$Tr::$m(a, b),
            rr: |a, b| ::std::ops::$Tr::$m(a, b),
            rs: |a, s| ::std::ops::$Tr::$m(a, s),
            rrs: |a, s| ::std::ops::$Tr::$m(a, s),
            avv: |a, b| ::std::ops::$TrA::$ma(a, b),
            avs: |a, s| ::std::ops::$TrA::$ma(a, s),
        }
    };
}

fn run_bin<V: VecX<Sym> + Copy>(sub: &mut Sub, cfg: &Config, tr: &str, op: Op, f: BinForms<V>) {
    let n = V::DIM;
    let k = V::NAME;
    let x: V = mk(0);
    let y: V = mk(n);
    let s = Sym::var(2 * n as u32);
    let vv: Vec<Sym> = (0..n).map(|i| Sym::bin(op, x.get(i), y.get(i))).collect();
    let vs: Vec<Sym> = (0..n).map(|i| Sym::bin(op, x.get(i), s)).collect();
    settle(sub, cfg, &format!("{tr}<V: Into<{k}<T>>> for {k}<T>"), "vec_op_vec", guarded(|| (f.vv)(x, y)), &vv);
    settle(sub, cfg, &format!("{tr}<V: Into<{k}<T>>> for {k}<T>"), "vec_op_scalar", guarded(|| (f.vs)(x, s)), &vs);
    settle(sub, cfg, &format!("{tr}<&{k}<T>> for {k}<T>"), "vec_op_refvec", guarded(|| (f.vr)(x, &y)), &vv);
    settle(sub, cfg, &format!("{tr}<{k}<T>> for &{k}<T>"), "refvec_op_vec", guarded(|| (f.rv)(&x, y)), &vv);
    settle(sub, cfg, &format!("{tr}<&{k}<T>> for &{k}<T>"), "refvec_op_refvec", guarded(|| (f.rr)(&x, &y)), &vv);
    settle(sub, cfg, &format!("{tr}<T> for &{k}<T>"), "refvec_op_scalar", guarded(|| (f.rs)(&x, s)), &vs);
    settle(sub, cfg, &format!("{tr}<&T> for &{k}<T>"), "refvec_op_refscalar", guarded(|| (f.rrs)(&x, &s)), &vs);
    settle(
        sub,
        cfg,
        &format!("{tr}Assign<V: Into<{k}<T>>> for {k}<T>"),
        "assign_vec",
        guarded(|| {
            let mut a = x;
            (f.avv)(&mut a, y);
            a
        }),
        &vv,
    );
    settle(
        sub,
        cfg,
        &format!("{tr}Assign<V: Into<{k}<T>>> for {k}<T>"),
        "assign_scalar",
        guarded(|| {
            let mut a = x;
            (f.avs)(&mut a, s);
            a
        }),
        &vs,
    );
}

fn run_un<V: VecX<Sym> + Copy>(sub: &mut Sub, cfg: &Config, tr: &str, op: Op, f: fn(V) -> V) {
    let n = V::DIM;
    let x: V = mk(0);
    let e: Vec<Sym> = (0..n).map(|i| Sym::un(op, x.get(i))).collect();
    settle(sub, cfg, &format!("{tr} for {}<T>", V::NAME), "unary", guarded(|| f(x)), &e);
}

type Tri<V> = fn(&V, &V, &V) -> V;
struct MaForms<V> {
    tr: [(&'static str, &'static str, Tri<V>); 8],
    ivv: fn(V, V, V) -> V,
    isv: fn(V, Sym, V) -> V,
    ivs: fn(V, V, Sym) -> V,
    iss: fn(V, Sym, Sym) -> V,
}
macro_rules! ma_forms {
    ($V:ty) => {
        MaForms::<$V> {
            tr: [
                ("MulAdd<V,V> for V", "v_v_v", |a, b, c| <$V as MulAdd<$V, $V>>::mul_add(*a, *b, *c)),
                ("MulAdd<V,V> for &V", "r_v_v", |a, b, c| <&$V as MulAdd<$V, $V>>::mul_add(a, *b, *c)),
                ("MulAdd<V,&V> for V", "v_v_r", |a, b, c| <$V as MulAdd<$V, &$V>>::mul_add(*a, *b, c)),
                ("MulAdd<V,&V> for &V", "r_v_r", |a, b, c| <&$V as MulAdd<$V, &$V>>::mul_add(a, *b, c)),
                ("MulAdd<&V,V> for V", "v_r_v", |a, b, c| <$V as MulAdd<&$V, $V>>::mul_add(*a, b, *c)),
                ("MulAdd<&V,V> for &V", "r_r_v", |a, b, c| <&$V as MulAdd<&$V, $V>>::mul_add(a, b, *c)),
                ("MulAdd<&V,&V> for V", "v_r_r", |a, b, c| <$V as MulAdd<&$V, &$V>>::mul_add(*a, b, c)),
                ("MulAdd<&V,&V> for &V", "r_r_r", |a, b, c| <&$V as MulAdd<&$V, &$V>>::mul_add(a, b, c)),
            ],
            ivv: |a, b, c| a.mul_add(b, c),
            isv: |a, s, c| a.mul_add(s, c),
            ivs: |a, b, s| a.mul_add(b, s),
            iss: |a, s, t| a.mul_add(s, t),
        }
    };
}

fn run_ma<V: VecX<Sym> + Copy>(sub: &mut Sub, cfg: &Config, f: MaForms<V>) {
    let n = V::DIM;
    let k = V::NAME;
    let x: V = mk(0);
    let y: V = mk(n);
    let z: V = mk(2 * n);
    let s = Sym::var(3 * n as u32);
    let t = Sym::var(3 * n as u32 + 1);
    let e: Vec<Sym> = (0..n).map(|i| Sym::tri(Op::MulAdd, x.get(i), y.get(i), z.get(i))).collect();
    for (api, case, g) in f.tr.iter() {
        settle(sub, cfg, &api.replace('V', &format!("{k}<T>")), case, guarded(|| g(&x, &y, &z)), &e);
    }
    let api = format!("{k}::mul_add");
    settle(sub, cfg, &api, "vec_vec", guarded(|| (f.ivv)(x, y, z)), &e);
    let e1: Vec<Sym> = (0..n).map(|i| Sym::tri(Op::MulAdd, x.get(i), s, z.get(i))).collect();
    settle(sub, cfg, &api, "scalar_vec", guarded(|| (f.isv)(x, s, z)), &e1);
    let e2: Vec<Sym> = (0..n).map(|i| Sym::tri(Op::MulAdd, x.get(i), y.get(i), s)).collect();
    settle(sub, cfg, &api, "vec_scalar", guarded(|| (f.ivs)(x, y, s)), &e2);
    let e3: Vec<Sym> = (0..n).map(|i| Sym::tri(Op::MulAdd, x.get(i), s, t)).collect();
    settle(sub, cfg, &api, "scalar_scalar", guarded(|| (f.iss)(x, s, t)), &e3);
}

macro_rules! ops_trace_kind {
    ($V:ident, $sub:expr, $cfg:expr) => {{
        type V = $V<Sym>;
        sym_reset();
        run_bin::<V>($sub, $cfg, "Add", Op::Add, bin_forms!(V, Add, add, AddAssign, add_assign));
        run_bin::<V>($sub, $cfg, "Sub", Op::Sub, bin_forms!(V, Sub, sub, SubAssign, sub_assign));
        run_bin::<V>($sub, $cfg, "Mul", Op::Mul, bin_forms!(V, Mul, mul, MulAssign, mul_assign));
        run_bin::<V>($sub, $cfg, "Div", Op::Div, bin_forms!(V, Div, div, DivAssign, div_assign));
        run_bin::<V>($sub, $cfg, "Rem", Op::Rem, bin_forms!(V, Rem, rem, RemAssign, rem_assign));
        run_bin::<V>($sub, $cfg, "Shl", Op::Shl, bin_forms!(V, Shl, shl, ShlAssign, shl_assign));
        run_bin::<V>($sub, $cfg, "Shr", Op::Shr, bin_forms!(V, Shr, shr, ShrAssign, shr_assign));
        run_bin::<V>($sub, $cfg, "BitAnd", Op::And, bin_forms!(V, BitAnd, bitand, BitAndAssign, bitand_assign));
        run_bin::<V>($sub, $cfg, "BitOr", Op::Or, bin_forms!(V, BitOr, bitor, BitOrAssign, bitor_assign));
        run_bin::<V>($sub, $cfg, "BitXor", Op::Xor, bin_forms!(V, BitXor, bitxor, BitXorAssign, bitxor_assign));
        run_un::<V>($sub, $cfg, "Neg", Op::Neg, |a| -a);
        run_un::<V>($sub, $cfg, "Not", Op::Not, |a| !a);
        run_ma::<V>($sub, $cfg, ma_forms!(V));
    }};
}

// ------------------------------------------------------------------------------------------
// reduce_trace: reductions on free symbols

fn pit_scalar(sub: &mut Sub, cfg: &Config, api: &str, case: &str, r: Result<Sym, String>, nvars: usize, reference: &dyn Fn(&dyn Fn(u32) -> Fp) -> Fp) {
    match r {
        Ok(o) => {
            decide_pit(PROP, sub, api, "Sym", case, &[o], nvars, cfg.case_seed(), 0, &|f| vec![reference(f)]);
        }
        Err(e) => {
            let _ = take_poison();
            sub.saw(api);
            let v = violation(PROP, sub, api, "Sym", "panic", case, format!("{} [{}]: panicked on free symbols: {}", api, case, e), cfg.case_seed(), 0);
            sub.violated(v);
        }
    }
}
fn pit_lanes<V: VecX<Sym>>(sub: &mut Sub, cfg: &Config, api: &str, case: &str, r: Result<V, String>, nvars: usize, reference: &dyn Fn(&dyn Fn(u32) -> Fp) -> Vec<Fp>) {
    match r {
        Ok(o) => {
            decide_pit(PROP, sub, api, "Sym", case, &o.to_vec(), nvars, cfg.case_seed(), 0, reference);
        }
        Err(e) => {
            let _ = take_poison();
            sub.saw(api);
            let v = violation(PROP, sub, api, "Sym", "panic", case, format!("{} [{}]: panicked on free symbols: {}", api, case, e), cfg.case_seed(), 0);
            sub.violated(v);
        }
    }
}

/// in-order leaves of the maximal tree of `op` nodes rooted at `s`
fn flatten(op: Op, s: Sym, out: &mut Vec<Sym>) {
    match s.node() {
        Node::Bin(o, a, b) if o == op => {
            flatten(op, Sym(a), out);
            flatten(op, Sym(b), out);
        }
        _ => out.push(s),
    }
}

/// a bit reduction must combine every lane exactly once, in element order, with `op` only
/// (any association: & | ^ are associative, so the property does not fix the bracketing)
fn decide_bitfold(sub: &mut Sub, cfg: &Config, api: &str, op: Op, r: Result<Sym, String>, xs: &[Sym]) {
    sub.saw(api);
    let h = monitors::prng::hash_str(api);
    match r {
        Ok(o) => {
            let mut leaves = Vec::new();
            flatten(op, o, &mut leaves);
            if leaves == xs {
                sub.sample(|| format!("{} [Sym]: {}", api, clip(&o.render(), 120)));
                sub.held(h, true);
            } else {
                let v = violation(PROP, sub, api, "Sym", "wrong_value", "not_fold_of_all_lanes", format!("{}: logged expression {} is not a `{}`-combination of all lanes once each in element order", api, clip(&o.render(), 400), op.sym()), cfg.case_seed(), 0);
                sub.violated(v);
            }
        }
        Err(e) => {
            let v = violation(PROP, sub, api, "Sym", "panic", "bitfold", format!("{}: panicked on free symbols: {}", api, e), cfg.case_seed(), 0);
            sub.violated(v);
        }
    }
}

fn fsum(f: &dyn Fn(u32) -> Fp, lo: usize, hi: usize) -> Fp {
    (lo..hi).fold(Fp::ZERO, |a, i| a.add(f(i as u32)))
}

macro_rules! reduce_trace_kind {
    ($V:ident $n:tt $dot:ident $size:ident, $sub:expr, $cfg:expr) => {{
        type V = $V<Sym>;
        let n: usize = $n;
        let k = stringify!($V);
        sym_reset();
        let x: V = mk(0);
        let y: V = mk(n);
        let z: V = mk(2 * n);
        let xs = x.to_vec();
        // every variable present in the arena must have a value at each PIT point
        let nv = 3 * n;
        pit_scalar($sub, $cfg, &format!("{k}::sum"), "sum", guarded(|| x.sum()), nv, &|f| fsum(f, 0, n));
        pit_scalar($sub, $cfg, &format!("{k}::product"), "product", guarded(|| x.product()), nv, &|f| (0..n).fold(Fp::ONE, |a, i| a.mul(f(i as u32))));
        pit_scalar($sub, $cfg, &format!("{k}::average"), "average", guarded(|| x.average()), nv, &|f| fsum(f, 0, n).mul(Fp::from_i64(n as i64).inv().unwrap()));
        when!($dot dot {
            pit_scalar($sub, $cfg, &format!("{k}::dot"), "dot", guarded(|| x.dot(y)), nv, &|f| (0..n).fold(Fp::ZERO, |a, i| a.add(f(i as u32).mul(f((n + i) as u32)))));
            pit_scalar($sub, $cfg, &format!("{k}::magnitude_squared"), "magnitude_squared", guarded(|| x.magnitude_squared()), nv, &|f| (0..n).fold(Fp::ZERO, |a, i| a.add(f(i as u32).mul(f(i as u32)))));
        });
        // user fold: exact left fold in element order, observed through a recording closure
        {
            let api = format!("{k}::reduce");
            $sub.saw(&api);
            let mut calls: Vec<(Sym, Sym)> = Vec::new();
            let r = guarded(|| {
                x.reduce(|a, b| {
                    calls.push((a, b));
                    Sym::bin(Op::Sub, a, b)
                })
            });
            let mut exp_calls = Vec::new();
            let mut acc = xs[0];
            for i in 1..n {
                exp_calls.push((acc, xs[i]));
                acc = Sym::bin(Op::Sub, acc, xs[i]);
            }
            let h = monitors::prng::hash_str(&api);
            match r {
                Ok(o) if o == acc && calls == exp_calls => {
                    $sub.sample(|| format!("{} [Sym]: {} closure calls, result {}", api, calls.len(), clip(&o.render(), 100)));
                    $sub.held(h, true);
                }
                Ok(o) => {
                    let v = violation(PROP, $sub, &api, "Sym", "wrong_value", "not_left_fold", format!("{}: closure calls {:?}, result {}; the left fold in element order makes calls {:?} and yields {}", api, calls, clip(&o.render(), 300), exp_calls, clip(&acc.render(), 300)), $cfg.case_seed(), 0);
                    $sub.violated(v);
                }
                Err(e) => {
                    let v = violation(PROP, $sub, &api, "Sym", "panic", "reduce", e, $cfg.case_seed(), 0);
                    $sub.violated(v);
                }
            }
        }
        decide_bitfold($sub, $cfg, &format!("{k}::reduce_bitand"), Op::And, guarded(|| x.reduce_bitand()), &xs);
        decide_bitfold($sub, $cfg, &format!("{k}::reduce_bitor"), Op::Or, guarded(|| x.reduce_bitor()), &xs);
        decide_bitfold($sub, $cfg, &format!("{k}::reduce_bitxor"), Op::Xor, guarded(|| x.reduce_bitxor()), &xs);
        // hadd: adjacent pairs of the concatenation self ++ rhs
        {
            let cat: Vec<Sym> = xs.iter().cloned().chain(y.to_vec()).collect();
            let e: Vec<Sym> = (0..n).map(|i| Sym::bin(Op::Add, cat[2 * i], cat[2 * i + 1])).collect();
            settle($sub, $cfg, &format!("{k}::hadd"), "hadd", guarded(|| x.hadd(y)), &e);
        }
        // Sum / Product over iterators of vectors
        pit_lanes::<V>($sub, $cfg, &format!("Sum for {k}<T>"), "sum_of_three", guarded(|| vec![x, y, z].into_iter().sum::<V>()), nv, &|f| (0..n).map(|i| f(i as u32).add(f((n + i) as u32)).add(f((2 * n + i) as u32))).collect());
        pit_lanes::<V>($sub, $cfg, &format!("Product for {k}<T>"), "product_of_three", guarded(|| vec![x, y, z].into_iter().product::<V>()), nv, &|f| (0..n).map(|i| f(i as u32).mul(f((n + i) as u32)).mul(f((2 * n + i) as u32))).collect());
        pit_lanes::<V>($sub, $cfg, &format!("Sum for {k}<T>"), "sum_of_none", guarded(|| Vec::<V>::new().into_iter().sum::<V>()), nv, &|_| vec![Fp::ZERO; n]);
        pit_lanes::<V>($sub, $cfg, &format!("Product for {k}<T>"), "product_of_none", guarded(|| Vec::<V>::new().into_iter().product::<V>()), nv, &|_| vec![Fp::ONE; n]);
        // iota: lane k is the integer k
        pit_lanes::<V>($sub, $cfg, &format!("{k}::iota"), "iota", guarded(|| V::iota()), nv, &|_| (0..n).map(|i| Fp::from_i64(i as i64)).collect());
    }};
}

// ------------------------------------------------------------------------------------------
// map_family: closures record (call#, args); each lane visited exactly once, result lane =
// value returned for that lane's arguments.  Call order is recorded but not asserted.

fn decide_calls<A: PartialEq + std::fmt::Debug, R: PartialEq + std::fmt::Debug>(sub: &mut Sub, cfg: &Config, api: &str, ty: &str, calls: &[(A, R)], lane_args: &[A], out: Result<Vec<R>, String>) {
    sub.saw(api);
    let h = monitors::prng::mix2(monitors::prng::hash_str(api), monitors::prng::hash_str(ty));
    let out = match out {
        Ok(o) => o,
        Err(e) => {
            let v = violation(PROP, sub, api, ty, "panic", "closure_family", e, cfg.case_seed(), 0);
            sub.violated(v);
            return;
        }
    };
    let n = lane_args.len();
    let mut bad: Option<(&str, String)> = None;
    if calls.len() != n {
        bad = Some(("call_count", format!("closure called {} times for {} lanes", calls.len(), n)));
    } else if out.len() != n {
        bad = Some(("arity", format!("{} output lanes", out.len())));
    } else {
        for i in 0..n {
            let hits: Vec<usize> = (0..n).filter(|&j| calls[j].0 == lane_args[i]).collect();
            if hits.len() != 1 {
                bad = Some(("lane_not_visited_once", format!("lane {} arguments {:?} were passed to the closure {} times", i, lane_args[i], hits.len())));
                break;
            }
            if out[i] != calls[hits[0]].1 {
                bad = Some(("result_lane", format!("lane {} holds {:?} but the closure returned {:?} for this lane's arguments {:?}", i, out[i], calls[hits[0]].1, lane_args[i])));
                break;
            }
        }
    }
    match bad {
        None => {
            sub.sample(|| format!("{} [{}]: calls (args, ret) = {:?} -> {:?}", api, ty, &calls[..n.min(4)], &out[..n.min(4)]));
            sub.held(h, true);
        }
        Some((what, d)) => {
            let v = violation(PROP, sub, api, ty, "wrong_value", what, format!("{}: {}; calls (args, ret) = {:?}, output = {:?}", api, d, calls, out), cfg.case_seed(), 0);
            sub.violated(v);
        }
    }
}

macro_rules! map_family_kind {
    ($V:ident $n:tt $dot:ident $size:ident, $sub:expr, $cfg:expr) => {{
        let n: usize = $n;
        let k = stringify!($V);
        let a: $V<Tag> = VecX::from_fn(|i| Tag(100 + i as u32));
        let b: $V<i32> = VecX::from_fn(|i| 200 + i as i32);
        let c: $V<Tag> = VecX::from_fn(|i| Tag(300 + i as u32));
        let la: Vec<Tag> = a.to_vec();
        let lb: Vec<i32> = b.to_vec();
        let lc: Vec<Tag> = c.to_vec();
        {
            let mut calls: Vec<(Tag, i32)> = Vec::new();
            let r = guarded(|| a.map(|x| { let r = 1000 + calls.len() as i32; calls.push((x, r)); r }));
            decide_calls($sub, $cfg, &format!("{k}::map"), "Tag->i32", &calls, &la, r.map(|v| v.to_vec()));
        }
        {
            let mut calls: Vec<((Tag, i32), i32)> = Vec::new();
            let r = guarded(|| a.map2(b, |x, y| { let r = 1000 + calls.len() as i32; calls.push(((x, y), r)); r }));
            let args: Vec<(Tag, i32)> = (0..n).map(|i| (la[i], lb[i])).collect();
            decide_calls($sub, $cfg, &format!("{k}::map2"), "(Tag,i32)->i32", &calls, &args, r.map(|v| v.to_vec()));
        }
        {
            let mut calls: Vec<((Tag, i32, Tag), Tag)> = Vec::new();
            let r = guarded(|| a.map3(b, c, |x, y, z| { let r = Tag(1000 + calls.len() as u32); calls.push(((x, y, z), r)); r }));
            let args: Vec<(Tag, i32, Tag)> = (0..n).map(|i| (la[i], lb[i], lc[i])).collect();
            decide_calls($sub, $cfg, &format!("{k}::map3"), "(Tag,i32,Tag)->Tag", &calls, &args, r.map(|v| v.to_vec()));
        }
        {
            let mut calls: Vec<(Tag, Tag)> = Vec::new();
            let r = guarded(|| { let mut m = a; m.apply(|x| { let r = Tag(1000 + calls.len() as u32); calls.push((x, r)); r }); m });
            decide_calls($sub, $cfg, &format!("{k}::apply"), "Tag", &calls, &la, r.map(|v| v.to_vec()));
        }
        {
            let mut calls: Vec<((Tag, i32), Tag)> = Vec::new();
            let r = guarded(|| { let mut m = a; m.apply2(b, |x, y| { let r = Tag(1000 + calls.len() as u32); calls.push(((x, y), r)); r }); m });
            let args: Vec<(Tag, i32)> = (0..n).map(|i| (la[i], lb[i])).collect();
            decide_calls($sub, $cfg, &format!("{k}::apply2"), "(Tag,i32)", &calls, &args, r.map(|v| v.to_vec()));
        }
        {
            let mut calls: Vec<((Tag, i32, Tag), Tag)> = Vec::new();
            let r = guarded(|| { let mut m = a; m.apply3(b, c, |x, y, z| { let r = Tag(1000 + calls.len() as u32); calls.push(((x, y, z), r)); r }); m });
            let args: Vec<(Tag, i32, Tag)> = (0..n).map(|i| (la[i], lb[i], lc[i])).collect();
            decide_calls($sub, $cfg, &format!("{k}::apply3"), "(Tag,i32,Tag)", &calls, &args, r.map(|v| v.to_vec()));
        }
        {
            // zip: lane i = (a_i, b_i); expressed as "calls" of the pairing function
            let r = guarded(|| a.zip(b));
            let args: Vec<(Tag, i32)> = (0..n).map(|i| (la[i], lb[i])).collect();
            let calls: Vec<((Tag, i32), (Tag, i32))> = args.iter().map(|p| (*p, *p)).collect();
            decide_calls($sub, $cfg, &format!("{k}::zip"), "(Tag,i32)", &calls, &args, r.map(|v| v.to_vec()));
        }
    }};
}

// ------------------------------------------------------------------------------------------
// constructors and conversions on Tag (pure data movement), Display order

fn digits_in_order(s: &str) -> Vec<u32> {
    let mut out = Vec::new();
    let mut cur: Option<u32> = None;
    for ch in s.chars() {
        if let Some(d) = ch.to_digit(10) {
            cur = Some(cur.unwrap_or(0).wrapping_mul(10).wrapping_add(d));
        } else if let Some(c) = cur.take() {
            out.push(c);
        }
    }
    if let Some(c) = cur {
        out.push(c);
    }
    out
}

macro_rules! constructors_kind {
    ($V:ident $n:tt $dot:ident $size:ident, $sub:expr, $cfg:expr) => {{
        type V = $V<Tag>;
        let n: usize = $n;
        let k = stringify!($V);
        let g = |i: usize| Tag(10 + 7 * i as u32);
        let ids: Vec<Tag> = (0..n).map(g).collect();
        let no = || String::new();
        let mut j = |api: String, got: Result<Vec<Tag>, String>, exp: Vec<Tag>| judge::<Tag>($sub, $cfg, 0, &api, "Tag", 0, got, Some(exp), &no);
        j(format!("{k}::new"), guarded(|| with_idx!($n, cb_new, $V g)).map(|v: V| v.to_vec()), ids.clone());
        j(format!("{k}::broadcast"), guarded(|| V::broadcast(Tag(77))).map(|v| v.to_vec()), vec![Tag(77); n]);
        j(format!("From<T> for {k}<T>"), guarded(|| V::from(Tag(78))).map(|v| v.to_vec()), vec![Tag(78); n]);
        j(format!("{k}::zero"), guarded(|| V::zero()).map(|v| v.to_vec()), vec![Tag(TAG_ZERO); n]);
        j(format!("{k}::one"), guarded(|| V::one()).map(|v| v.to_vec()), vec![Tag(TAG_ONE); n]);
        j(format!("Zero for {k}<T>"), guarded(|| <V as num_traits::Zero>::zero()).map(|v| v.to_vec()), vec![Tag(TAG_ZERO); n]);
        j(format!("One for {k}<T>"), guarded(|| <V as num_traits::One>::one()).map(|v| v.to_vec()), vec![Tag(TAG_ONE); n]);
        j(format!("From<tuple> for {k}<T>"), guarded(|| V::from(with_idx!($n, cb_tuple, g))).map(|v| v.to_vec()), ids.clone());
        j(format!("From<[T; N]> for {k}<T>"), guarded(|| V::from(with_idx!($n, cb_array, g))).map(|v| v.to_vec()), ids.clone());
        let v0: V = VecX::from_fn(g);
        j(format!("{k}::into_tuple"), guarded(|| { let t = v0.into_tuple(); with_idx!($n, cb_untuple, t) }), ids.clone());
        j(format!("{k}::into_array"), guarded(|| v0.into_array().to_vec()), ids.clone());
        // from_slice / from_iter: short, empty, exact, long
        let long: Vec<Tag> = (0..n + 3).map(g).collect();
        for (case, m) in [("empty", 0usize), ("short", n - 1), ("exact", n), ("long", n + 3)] {
            let exp: Vec<Tag> = (0..n).map(|i| if i < m { long[i] } else { Tag(TAG_DEFAULT) }).collect();
            j(format!("{k}::from_slice/{case}"), guarded(|| V::from_slice(&long[..m])).map(|v| v.to_vec()), exp.clone());
            j(format!("FromIterator for {k}<T>/{case}"), guarded(|| V::from_iter(long[..m].iter().cloned())).map(|v| v.to_vec()), exp.clone());
        }
        // a stream read vector by vector: collecting through `by_ref()` takes exactly dim items, so
        // the second vector continues where the first stopped and the rest stays in the stream
        {
            let stream: Vec<Tag> = (0..2 * n + 2).map(g).collect();
            let mut it = stream.iter().cloned();
            let first = guarded(|| V::from_iter(it.by_ref())).map(|v| v.to_vec());
            let second = guarded(|| V::from_iter(it.by_ref())).map(|v| v.to_vec());
            let rest: Vec<Tag> = it.collect();
            let got = match (first, second) {
                (Ok(a), Ok(b)) => Ok(a.into_iter().chain(b).chain(rest).collect::<Vec<Tag>>()),
                (a, b) => Err(a.err().or(b.err()).unwrap()),
            };
            j(format!("FromIterator for {k}<T>/stream"), got, stream.clone());
        }
        // Display prints the elements in element order
        {
            let api = format!("Display for {k}<T>");
            let text = guarded(|| format!("{}", v0));
            let shown = text.clone().unwrap_or_default();
            let ns = || format!("rendered as {:?}", shown);
            judge::<Tag>($sub, $cfg, 0, &api, "Tag", 0, text.map(|s| digits_in_order(&s).into_iter().map(Tag).collect()), Some(ids.clone()), &ns);
        }
        // iota on a native integer
        {
            let api = format!("{k}::iota");
            judge::<i32>($sub, $cfg, 0, &api, "i32", 0, guarded(|| $V::<i32>::iota()).map(|v| v.to_vec()), Some((0..n as i32).collect()), &no);
        }
    }};
}

// ------------------------------------------------------------------------------------------
// value sub-checks: order-dependent functions on Q / native ints / floats

/// expected lanes of an element-wise min/max.  On a lane where an operand is NaN the
/// mathematical min/max is undefined: any of the two operands of *that lane* is accepted.
fn minmax_exp<T: El + PartialOrd>(got: &Result<Vec<T>, String>, a: &[T], b: &[T], want_min: bool) -> Vec<T> {
    (0..a.len())
        .map(|i| {
            if a[i].nan() || b[i].nan() {
                match got {
                    Ok(g) if i < g.len() && (g[i].same(a[i]) || g[i].same(b[i])) => g[i],
                    _ => a[i],
                }
            } else if want_min {
                if b[i] < a[i] { b[i] } else { a[i] }
            } else if b[i] > a[i] {
                b[i]
            } else {
                a[i]
            }
        })
        .collect()
}
/// expected value of a min/max reduction; with a NaN lane any element is accepted
fn reduce_minmax_exp<T: El + PartialOrd>(got: &Result<Vec<T>, String>, a: &[T], want_min: bool) -> Vec<T> {
    if a.iter().any(|x| x.nan()) {
        return match got {
            Ok(g) if g.len() == 1 && a.iter().any(|x| x.same(g[0])) => vec![g[0]],
            _ => vec![a[0]],
        };
    }
    let mut m = a[0];
    for x in &a[1..] {
        if (want_min && *x < m) || (!want_min && *x > m) {
            m = *x;
        }
    }
    vec![m]
}

macro_rules! masks {
    ($V:ident, $ty:expr, $sub:expr, $cfg:expr, $idx:expr, $h:expr, $va:ident, $vb:ident, $a:ident, $b:ident, $inp:expr; $( $m:ident $ms:ident $op:tt ),+) => {$(
        judge::<bool>($sub, $cfg, $idx, concat!(stringify!($V), "::", stringify!($m)), $ty, $h, guarded(|| $va.$m(&$vb)).map(|v| v.to_vec()), Some((0..$a.len()).map(|i| $a[i] $op $b[i]).collect()), $inp);
        judge::<bool>($sub, $cfg, $idx, concat!(stringify!($V), "::", stringify!($ms)), $ty, $h, guarded(|| $va.$ms($vb)).map(|v| v.to_vec()), Some((0..$a.len()).map(|i| $a[i] $op $b[i]).collect()), $inp);
        // both operands the very same object (`v.cmpne(&v)`, the lane-wise `x != x` NaN test): still per element
        judge::<bool>($sub, $cfg, $idx, concat!(stringify!($V), "::", stringify!($m)), $ty, $h ^ 0x5e1f, guarded(|| $va.$m(&$va)).map(|v| v.to_vec()), Some((0..$a.len()).map(|i| $a[i] $op $a[i]).collect()), $inp);
    )+};
}

/// partial_* family: needs only PartialOrd
macro_rules! partial_kind {
    ($V:ident, $T:ty, $ty:expr, $sub:expr, $cfg:expr, $idx:expr, $a:expr, $b:expr, $s:expr) => {{
        let a: Vec<$T> = $a;
        let b: Vec<$T> = $b;
        let s: $T = $s;
        let n = a.len();
        let va: $V<$T> = VecX::from_fn(|i| a[i]);
        let vb: $V<$T> = VecX::from_fn(|i| b[i]);
        let sv: Vec<$T> = vec![s; n];
        let mut hh = H64::new();
        hash_els(&mut hh, &a);
        hash_els(&mut hh, &b);
        hh.u(s.hb());
        let h = hh.get();
        let inp = || format!("a={:?} b={:?} s={:?}", a, b, s);
        let k = stringify!($V);
        let g = guarded(|| $V::<$T>::partial_min(va, vb)).map(|v| v.to_vec());
        let e = minmax_exp(&g, &a, &b, true);
        judge::<$T>($sub, $cfg, $idx, &format!("{k}::partial_min"), $ty, h, g, Some(e), &inp);
        let g = guarded(|| $V::<$T>::partial_max(va, vb)).map(|v| v.to_vec());
        let e = minmax_exp(&g, &a, &b, false);
        judge::<$T>($sub, $cfg, $idx, &format!("{k}::partial_max"), $ty, h, g, Some(e), &inp);
        let g = guarded(|| $V::<$T>::partial_min(va, s)).map(|v| v.to_vec());
        let e = minmax_exp(&g, &a, &sv, true);
        judge::<$T>($sub, $cfg, $idx, &format!("{k}::partial_min"), $ty, h ^ 1, g, Some(e), &inp);
        let g = guarded(|| $V::<$T>::partial_max(s, vb)).map(|v| v.to_vec());
        let e = minmax_exp(&g, &sv, &b, false);
        judge::<$T>($sub, $cfg, $idx, &format!("{k}::partial_max"), $ty, h ^ 1, g, Some(e), &inp);
        let g = guarded(|| va.reduce_partial_min()).map(|v| vec![v]);
        let e = reduce_minmax_exp(&g, &a, true);
        judge::<$T>($sub, $cfg, $idx, &format!("{k}::reduce_partial_min"), $ty, h, g, Some(e), &inp);
        let g = guarded(|| va.reduce_partial_max()).map(|v| vec![v]);
        let e = reduce_minmax_exp(&g, &a, false);
        judge::<$T>($sub, $cfg, $idx, &format!("{k}::reduce_partial_max"), $ty, h, g, Some(e), &inp);
        masks!($V, $ty, $sub, $cfg, $idx, h, va, vb, a, b, &inp;
            partial_cmpeq partial_cmpeq_simd ==, partial_cmpne partial_cmpne_simd !=,
            partial_cmpge partial_cmpge_simd >=, partial_cmpgt partial_cmpgt_simd >,
            partial_cmple partial_cmple_simd <=, partial_cmplt partial_cmplt_simd <);
    }};
}

/// total-order family (T: Ord) and the Eq masks
macro_rules! ord_kind {
    ($V:ident, $T:ty, $ty:expr, $sub:expr, $cfg:expr, $idx:expr, $a:expr, $b:expr, $s:expr) => {{
        let a: Vec<$T> = $a;
        let b: Vec<$T> = $b;
        let s: $T = $s;
        let n = a.len();
        let va: $V<$T> = VecX::from_fn(|i| a[i]);
        let vb: $V<$T> = VecX::from_fn(|i| b[i]);
        let sv: Vec<$T> = vec![s; n];
        let mut hh = H64::new();
        hash_els(&mut hh, &a);
        hash_els(&mut hh, &b);
        hh.u(s.hb());
        let h = hh.get();
        let inp = || format!("a={:?} b={:?} s={:?}", a, b, s);
        let k = stringify!($V);
        let ok = |v: $V<$T>| v.to_vec();
        judge::<$T>($sub, $cfg, $idx, &format!("{k}::min"), $ty, h, guarded(|| $V::<$T>::min(va, vb)).map(ok), Some((0..n).map(|i| std::cmp::min(a[i], b[i])).collect()), &inp);
        judge::<$T>($sub, $cfg, $idx, &format!("{k}::max"), $ty, h, guarded(|| $V::<$T>::max(va, vb)).map(ok), Some((0..n).map(|i| std::cmp::max(a[i], b[i])).collect()), &inp);
        judge::<$T>($sub, $cfg, $idx, &format!("{k}::min"), $ty, h ^ 1, guarded(|| $V::<$T>::min(s, vb)).map(ok), Some((0..n).map(|i| std::cmp::min(sv[i], b[i])).collect()), &inp);
        judge::<$T>($sub, $cfg, $idx, &format!("{k}::max"), $ty, h ^ 1, guarded(|| $V::<$T>::max(va, s)).map(ok), Some((0..n).map(|i| std::cmp::max(a[i], sv[i])).collect()), &inp);
        judge::<$T>($sub, $cfg, $idx, &format!("{k}::reduce_min"), $ty, h, guarded(|| va.reduce_min()).map(|v| vec![v]), Some(vec![*a.iter().min().unwrap()]), &inp);
        judge::<$T>($sub, $cfg, $idx, &format!("{k}::reduce_max"), $ty, h, guarded(|| va.reduce_max()).map(|v| vec![v]), Some(vec![*a.iter().max().unwrap()]), &inp);
        masks!($V, $ty, $sub, $cfg, $idx, h, va, vb, a, b, &inp;
            cmpeq cmpeq_simd ==, cmpne cmpne_simd !=, cmpge cmpge_simd >=, cmpgt cmpgt_simd >, cmple cmple_simd <=, cmplt cmplt_simd <);
    }};
}

/// reduce_and / reduce_or (zero is false, anything else — NaN included — is true)
macro_rules! boolred_kind {
    ($V:ident, $T:ty, $ty:expr, $sub:expr, $cfg:expr, $idx:expr, $a:expr, $truth:expr) => {{
        let a: Vec<$T> = $a;
        let va: $V<$T> = VecX::from_fn(|i| a[i]);
        let mut hh = H64::new();
        hash_els(&mut hh, &a);
        let inp = || format!("a={:?}", a);
        let truth: fn(&$T) -> bool = $truth;
        judge::<bool>($sub, $cfg, $idx, concat!(stringify!($V), "::reduce_and"), $ty, hh.get(), guarded(|| va.reduce_and()).map(|v| vec![v]), Some(vec![a.iter().all(truth)]), &inp);
        judge::<bool>($sub, $cfg, $idx, concat!(stringify!($V), "::reduce_or"), $ty, hh.get(), guarded(|| va.reduce_or()).map(|v| vec![v]), Some(vec![a.iter().any(truth)]), &inp);
    }};
}

/// bit reductions, sign predicates, exact sum / dot / average on a native signed integer
macro_rules! intred_kind {
    ($V:ident $dot:ident, $T:ty, $ty:expr, $sub:expr, $cfg:expr, $idx:expr, $a:expr, $b:expr) => {{
        let a: Vec<$T> = $a;
        let b: Vec<$T> = $b;
        let n = a.len();
        let va: $V<$T> = VecX::from_fn(|i| a[i]);
        let vb: $V<$T> = VecX::from_fn(|i| b[i]);
        let mut hh = H64::new();
        hash_els(&mut hh, &a);
        hash_els(&mut hh, &b);
        let h = hh.get();
        let inp = || format!("a={:?} b={:?}", a, b);
        judge::<$T>($sub, $cfg, $idx, concat!(stringify!($V), "::reduce_bitand"), $ty, h, guarded(|| va.reduce_bitand()).map(|v| vec![v]), Some(vec![a.iter().fold(!0, |x, y| x & *y)]), &inp);
        judge::<$T>($sub, $cfg, $idx, concat!(stringify!($V), "::reduce_bitor"), $ty, h, guarded(|| va.reduce_bitor()).map(|v| vec![v]), Some(vec![a.iter().fold(0, |x, y| x | *y)]), &inp);
        judge::<$T>($sub, $cfg, $idx, concat!(stringify!($V), "::reduce_bitxor"), $ty, h, guarded(|| va.reduce_bitxor()).map(|v| vec![v]), Some(vec![a.iter().fold(0, |x, y| x ^ *y)]), &inp);
        judge::<bool>($sub, $cfg, $idx, concat!(stringify!($V), "::is_any_negative"), $ty, h, guarded(|| va.is_any_negative()).map(|v| vec![v]), Some(vec![a.iter().any(|x| *x < 0)]), &inp);
        judge::<bool>($sub, $cfg, $idx, concat!(stringify!($V), "::are_all_positive"), $ty, h, guarded(|| va.are_all_positive()).map(|v| vec![v]), Some(vec![a.iter().all(|x| *x > 0)]), &inp);
        // small operands (|x| <= 1000, n <= 64): no overflow in i32
        let sa: Vec<$T> = a.iter().map(|x| x % 1000).collect();
        let sb: Vec<$T> = b.iter().map(|x| x % 1000).collect();
        let vsa: $V<$T> = VecX::from_fn(|i| sa[i]);
        let vsb: $V<$T> = VecX::from_fn(|i| sb[i]);
        let inp2 = || format!("a={:?} b={:?}", sa, sb);
        let tot: $T = sa.iter().sum();
        judge::<$T>($sub, $cfg, $idx, concat!(stringify!($V), "::sum"), $ty, h, guarded(|| vsa.sum()).map(|v| vec![v]), Some(vec![tot]), &inp2);
        judge::<$T>($sub, $cfg, $idx, concat!(stringify!($V), "::average"), $ty, h, guarded(|| vsa.average()).map(|v| vec![v]), Some(vec![tot / n as $T]), &inp2);
        when!($dot dot {
            judge::<$T>($sub, $cfg, $idx, concat!(stringify!($V), "::dot"), $ty, h, guarded(|| vsa.dot(vsb)).map(|v| vec![v]), Some(vec![(0..n).map(|i| sa[i] * sb[i]).sum()]), &inp2);
        });
        let _ = (vb, vsb);
    }};
}

/// float lane functions and sign predicates
macro_rules! float_kind {
    ($V:ident, $T:ty, $ty:expr, $sub:expr, $cfg:expr, $idx:expr, $a:expr) => {{
        let a: Vec<$T> = $a;
        let va: $V<$T> = VecX::from_fn(|i| a[i]);
        let mut hh = H64::new();
        hash_els(&mut hh, &a);
        let h = hh.get();
        let inp = || format!("a={:?}", a);
        let ok = |v: $V<$T>| v.to_vec();
        judge::<$T>($sub, $cfg, $idx, concat!(stringify!($V), "::sqrt"), $ty, h, guarded(|| va.sqrt()).map(ok), Some(a.iter().map(|x| x.sqrt()).collect()), &inp);
        judge::<$T>($sub, $cfg, $idx, concat!(stringify!($V), "::rsqrt"), $ty, h, guarded(|| va.rsqrt()).map(ok), Some(a.iter().map(|x| 1.0 / x.sqrt()).collect()), &inp);
        judge::<$T>($sub, $cfg, $idx, concat!(stringify!($V), "::recip"), $ty, h, guarded(|| va.recip()).map(ok), Some(a.iter().map(|x| 1.0 / x).collect()), &inp);
        judge::<$T>($sub, $cfg, $idx, concat!(stringify!($V), "::ceil"), $ty, h, guarded(|| va.ceil()).map(ok), Some(a.iter().map(|x| x.ceil()).collect()), &inp);
        judge::<$T>($sub, $cfg, $idx, concat!(stringify!($V), "::floor"), $ty, h, guarded(|| va.floor()).map(ok), Some(a.iter().map(|x| x.floor()).collect()), &inp);
        judge::<$T>($sub, $cfg, $idx, concat!(stringify!($V), "::round"), $ty, h, guarded(|| va.round()).map(ok), Some(a.iter().map(|x| x.round()).collect()), &inp);
        judge::<bool>($sub, $cfg, $idx, concat!(stringify!($V), "::is_any_negative"), $ty, h, guarded(|| va.is_any_negative()).map(|v| vec![v]), Some(vec![a.iter().any(|x| num_traits::Signed::is_negative(x))]), &inp);
        judge::<bool>($sub, $cfg, $idx, concat!(stringify!($V), "::are_all_positive"), $ty, h, guarded(|| va.are_all_positive()).map(|v| vec![v]), Some(vec![a.iter().all(|x| num_traits::Signed::is_positive(x))]), &inp);
    }};
}

// ------------------------------------------------------------------------------------------
// native_ops: vector operator vs the scalar operator lane by lane, panic-equivalent

trait Nat: El + PartialEq {
    const TY: &'static str;
    const FLOAT: bool;
    fn small(v: i64) -> Self;
    fn specials() -> Vec<Self>;
    fn rnd(rng: &mut Rng) -> Self;
}
macro_rules! nat_int { ($($T:ident),+) => {$(
    impl Nat for $T {
        const TY: &'static str = stringify!($T);
        const FLOAT: bool = false;
        fn small(v: i64) -> $T { v as $T }
        fn specials() -> Vec<$T> { vec![$T::MIN, $T::MAX, 0, (-1i64) as $T, $T::BITS as $T, ($T::BITS - 1) as $T, 1] }
        fn rnd(rng: &mut Rng) -> $T { rng.next_u64() as $T }
    }
)+} }
nat_int!(i8, u8, i16, u16, i32, u32, i64, u64);
macro_rules! nat_float { ($($T:ident $B:ident),+) => {$(
    impl Nat for $T {
        const TY: &'static str = stringify!($T);
        const FLOAT: bool = true;
        fn small(v: i64) -> $T { v as $T * 0.5 }
        fn specials() -> Vec<$T> { vec![$T::NAN, $T::INFINITY, $T::NEG_INFINITY, 0.0, -0.0, $T::MAX, $T::MIN_POSITIVE, -1.0] }
        fn rnd(rng: &mut Rng) -> $T { $T::from_bits(rng.next_u64() as $B) }
    }
)+} }
nat_float!(f32 u32, f64 u64);

struct NatForms<V, T> {
    tr: &'static str,
    /// 0 = + - *, 1 = / %, 2 = << >>, 3 = & | ^
    class: u8,
    sc: fn(T, T) -> T,
    vv: fn(V, V) -> V,
    vs: fn(V, T) -> V,
    vr: fn(V, &V) -> V,
    rv: fn(&V, V) -> V,
    rr: fn(&V, &V) -> V,
    rs: fn(&V, T) -> V,
    rrs: fn(&V, &T) -> V,
    avv: fn(&mut V, V),
    avs: fn(&mut V, T),
    sv: Option<fn(T, V) -> V>,
}
macro_rules! nat_forms {
    ($V:ty, $T:ty, $Tr:ident, $m:ident, $TrA:ident, $ma:ident, $op:tt, $class:expr, $sv:expr) => {
        NatForms::<$V, $T> {
            tr: stringify!($Tr),
            class: $class,
            sc: |a, b| a $op b,
            vv: |a, b| ::std::ops::$Tr::$m(a, b),
            vs: |a, s| ::std::ops::$Tr::$m(a, s),
            vr: |a, b| ::std::ops::$Tr::$m(a, b),
            rv: |a, b| ::std::ops::$Tr::$m(a, b),
            rr: |a, b| ::std::ops::$Tr::$m(a, b),
            rs: |a, s| ::std::ops::$Tr::$m(a, s),
            rrs: |a, s| ::std::ops::$Tr::$m(a, s),
            avv: |a, b| ::std::ops::$TrA::$ma(a, b),
            avs: |a, s| ::std::ops::$TrA::$ma(a, s),
            sv: $sv,
        }
    };
}

fn lanes_exp<T: Nat>(sc: fn(T, T) -> T, xs: &[T], ys: &[T]) -> Option<Vec<T>> {
    let mut out = Vec::with_capacity(xs.len());
    for i in 0..xs.len() {
        match guarded(|| sc(xs[i], ys[i])) {
            Ok(v) => out.push(v),
            Err(_) => return None,
        }
    }
    Some(out)
}

fn run_nat<V: VecX<T> + Copy, T: Nat>(sub: &mut Sub, cfg: &Config, idx: u64, f: &NatForms<V, T>) {
    let n = V::DIM;
    let k = V::NAME;
    let tr = f.tr;
    let mut rng = Rng::for_case(&format!("native_ops/{}/{}/{}", k, T::TY, tr), cfg.case_seed(), idx);
    // operands: 0 = safe (no scalar op panics), 1 = safe with one hostile lane, 2 = random bits
    let mode = match rng.below(10) {
        0..=3 => 0,
        4..=7 => 1,
        _ => 2,
    };
    let safe_b = |rng: &mut Rng| match f.class {
        2 => T::small(rng.range_i64(0, 6)),
        _ => T::small(rng.range_i64(1, 7)),
    };
    let mut a: Vec<T> = (0..n).map(|_| if mode == 2 { T::rnd(&mut rng) } else { T::small(rng.range_i64(8, 18)) }).collect();
    let mut b: Vec<T> = (0..n).map(|_| if mode == 2 { T::rnd(&mut rng) } else { safe_b(&mut rng) }).collect();
    let mut s: T = if mode == 2 { T::rnd(&mut rng) } else { safe_b(&mut rng) };
    if mode == 1 {
        let sp = T::specials();
        let l = rng.usize_below(n);
        match rng.below(4) {
            0 => a[l] = *rng.pick(&sp),
            1 => b[l] = *rng.pick(&sp),
            2 => {
                a[l] = *rng.pick(&sp);
                b[l] = *rng.pick(&sp);
            }
            _ => {
                a[l] = *rng.pick(&sp);
                s = *rng.pick(&sp);
            }
        }
    }
    let va = V::from_fn(|i| a[i]);
    let vb = V::from_fn(|i| b[i]);
    let sv: Vec<T> = vec![s; n];
    let mut hh = H64::new();
    hash_els(&mut hh, &a);
    hash_els(&mut hh, &b);
    hh.u(s.hb()).s(tr);
    let h = hh.get();
    let inp = || format!("a={:?} b={:?} s={:?} (operand mode {})", a, b, s, mode);
    let e_vv = lanes_exp(f.sc, &a, &b);
    let e_vs = lanes_exp(f.sc, &a, &sv);
    let ok = |v: V| v.to_vec();
    let ty = T::TY;
    judge::<T>(sub, cfg, idx, &format!("{tr}<V: Into<{k}<T>>> for {k}<T>"), ty, h, guarded(|| (f.vv)(va, vb)).map(ok), e_vv.clone(), &inp);
    judge::<T>(sub, cfg, idx, &format!("{tr}<V: Into<{k}<T>>> for {k}<T>"), ty, h ^ 1, guarded(|| (f.vs)(va, s)).map(ok), e_vs.clone(), &inp);
    judge::<T>(sub, cfg, idx, &format!("{tr}<&{k}<T>> for {k}<T>"), ty, h, guarded(|| (f.vr)(va, &vb)).map(ok), e_vv.clone(), &inp);
    judge::<T>(sub, cfg, idx, &format!("{tr}<{k}<T>> for &{k}<T>"), ty, h, guarded(|| (f.rv)(&va, vb)).map(ok), e_vv.clone(), &inp);
    judge::<T>(sub, cfg, idx, &format!("{tr}<&{k}<T>> for &{k}<T>"), ty, h, guarded(|| (f.rr)(&va, &vb)).map(ok), e_vv.clone(), &inp);
    judge::<T>(sub, cfg, idx, &format!("{tr}<T> for &{k}<T>"), ty, h, guarded(|| (f.rs)(&va, s)).map(ok), e_vs.clone(), &inp);
    judge::<T>(sub, cfg, idx, &format!("{tr}<&T> for &{k}<T>"), ty, h, guarded(|| (f.rrs)(&va, &s)).map(ok), e_vs.clone(), &inp);
    judge::<T>(
        sub,
        cfg,
        idx,
        &format!("{tr}Assign<V: Into<{k}<T>>> for {k}<T>"),
        ty,
        h,
        guarded(|| {
            let mut m = va;
            (f.avv)(&mut m, vb);
            m
        })
        .map(ok),
        e_vv.clone(),
        &inp,
    );
    judge::<T>(
        sub,
        cfg,
        idx,
        &format!("{tr}Assign<V: Into<{k}<T>>> for {k}<T>"),
        ty,
        h ^ 1,
        guarded(|| {
            let mut m = va;
            (f.avs)(&mut m, s);
            m
        })
        .map(ok),
        e_vs.clone(),
        &inp,
    );
    if let Some(left) = f.sv {
        // scalar on the left: lane i = s op a_i
        let e = lanes_exp(f.sc, &sv, &a);
        judge::<T>(sub, cfg, idx, &format!("{tr}<{k}<{ty}>> for {ty}"), ty, h, guarded(|| left(s, va)).map(ok), e, &inp);
    }
}

macro_rules! nat_arith {
    ($V:ident, $T:ident, $sub:expr, $cfg:expr, $idx:expr) => {{
        type V = $V<$T>;
        run_nat::<V, $T>($sub, $cfg, $idx, &nat_forms!(V, $T, Add, add, AddAssign, add_assign, +, 0, Some(|s, v| s + v)));
        run_nat::<V, $T>($sub, $cfg, $idx, &nat_forms!(V, $T, Sub, sub, SubAssign, sub_assign, -, 0, None));
        run_nat::<V, $T>($sub, $cfg, $idx, &nat_forms!(V, $T, Mul, mul, MulAssign, mul_assign, *, 0, Some(|s, v| s * v)));
        run_nat::<V, $T>($sub, $cfg, $idx, &nat_forms!(V, $T, Div, div, DivAssign, div_assign, /, 1, None));
        run_nat::<V, $T>($sub, $cfg, $idx, &nat_forms!(V, $T, Rem, rem, RemAssign, rem_assign, %, 1, None));
    }};
}
macro_rules! nat_bits {
    ($V:ident, $T:ident, $sub:expr, $cfg:expr, $idx:expr) => {{
        type V = $V<$T>;
        run_nat::<V, $T>($sub, $cfg, $idx, &nat_forms!(V, $T, Shl, shl, ShlAssign, shl_assign, <<, 2, None));
        run_nat::<V, $T>($sub, $cfg, $idx, &nat_forms!(V, $T, Shr, shr, ShrAssign, shr_assign, >>, 2, None));
        run_nat::<V, $T>($sub, $cfg, $idx, &nat_forms!(V, $T, BitAnd, bitand, BitAndAssign, bitand_assign, &, 3, None));
        run_nat::<V, $T>($sub, $cfg, $idx, &nat_forms!(V, $T, BitOr, bitor, BitOrAssign, bitor_assign, |, 3, None));
        run_nat::<V, $T>($sub, $cfg, $idx, &nat_forms!(V, $T, BitXor, bitxor, BitXorAssign, bitxor_assign, ^, 3, None));
        // Not / Neg
        {
            let n = <V as VecX<$T>>::DIM;
            let k = stringify!($V);
            let mut rng = Rng::for_case(&format!("native_ops/{}/{}/unary", k, <$T as Nat>::TY), $cfg.case_seed(), $idx);
            let sp = <$T as Nat>::specials();
            let a: Vec<$T> = (0..n).map(|_| if rng.chance(1, 2 * n as u64) { *rng.pick(&sp) } else { <$T as Nat>::rnd(&mut rng) >> 1 }).collect();
            let va: V = VecX::from_fn(|i| a[i]);
            let mut hh = H64::new();
            hash_els(&mut hh, &a);
            let inp = || format!("a={:?}", a);
            judge::<$T>($sub, $cfg, $idx, &format!("Not for {k}<T>"), <$T as Nat>::TY, hh.get(), guarded(|| !va).map(|v| v.to_vec()), Some(a.iter().map(|x| !*x).collect()), &inp);
        }
    }};
}
macro_rules! nat_lefts {
    ($V:ident, $sub:expr, $cfg:expr, $idx:expr; $($T:ident),+) => {$({
        type V = $V<$T>;
        run_nat::<V, $T>($sub, $cfg, $idx, &nat_forms!(V, $T, Add, add, AddAssign, add_assign, +, 0, Some(|s, v| s + v)));
        run_nat::<V, $T>($sub, $cfg, $idx, &nat_forms!(V, $T, Mul, mul, MulAssign, mul_assign, *, 0, Some(|s, v| s * v)));
    })+};
}
macro_rules! nat_neg {
    ($V:ident, $T:ident, $sub:expr, $cfg:expr, $idx:expr) => {{
        type V = $V<$T>;
        let n = <V as VecX<$T>>::DIM;
        let k = stringify!($V);
        let mut rng = Rng::for_case(&format!("native_ops/{}/{}/neg", k, <$T as Nat>::TY), $cfg.case_seed(), $idx);
        let sp = <$T as Nat>::specials();
        let a: Vec<$T> = (0..n).map(|_| if rng.chance(1, 2 * n as u64) { *rng.pick(&sp) } else { <$T as Nat>::small(rng.range_i64(-100, 100)) }).collect();
        let va: V = VecX::from_fn(|i| a[i]);
        let mut hh = H64::new();
        hash_els(&mut hh, &a);
        let inp = || format!("a={:?}", a);
        let zero: Vec<$T> = vec![<$T as Nat>::small(0); n];
        let _ = zero;
        let e = lanes_exp::<$T>(|x, _| -x, &a, &a);
        judge::<$T>($sub, $cfg, $idx, &format!("Neg for {k}<T>"), <$T as Nat>::TY, hh.get(), guarded(|| -va).map(|v| v.to_vec()), e, &inp);
    }};
}

// ------------------------------------------------------------------------------------------
// generators

fn gen_q(rng: &mut Rng, n: usize) -> (Vec<Q>, Vec<Q>, Q) {
    let a: Vec<Q> = (0..n).map(|_| monitors::gen::biased_q(rng, 9, 6)).collect();
    let b: Vec<Q> = (0..n).map(|i| if rng.chance(1, 4) { a[i] } else { monitors::gen::biased_q(rng, 9, 6) }).collect();
    let s = if rng.chance(1, 3) { a[rng.usize_below(n)] } else { monitors::gen::biased_q(rng, 9, 6) };
    (a, b, s)
}
fn gen_i32_one(rng: &mut Rng) -> i32 {
    match rng.below(12) {
        0 => i32::MIN,
        1 => i32::MAX,
        2 => 0,
        3 => -1,
        4 | 5 => rng.next_u64() as i32,
        _ => rng.range_i64(-4, 4) as i32,
    }
}
fn gen_i32(rng: &mut Rng, n: usize) -> (Vec<i32>, Vec<i32>, i32) {
    let a: Vec<i32> = (0..n).map(|_| gen_i32_one(rng)).collect();
    let b: Vec<i32> = (0..n).map(|i| if rng.chance(1, 4) { a[i] } else { gen_i32_one(rng) }).collect();
    let s = if rng.chance(1, 3) { a[rng.usize_below(n)] } else { gen_i32_one(rng) };
    (a, b, s)
}
fn gen_f64_one(rng: &mut Rng) -> f64 {
    match rng.below(16) {
        0 | 1 => f64::NAN,
        2 => 0.0,
        3 => -0.0,
        4 => f64::INFINITY,
        5 => f64::NEG_INFINITY,
        6 => f64::from_bits(rng.next_u64()),
        7 | 8 => rng.range_i64(0, 400) as f64 / 16.0,
        _ => rng.range_i64(-12, 12) as f64 * 0.5,
    }
}
fn gen_f64(rng: &mut Rng, n: usize) -> (Vec<f64>, Vec<f64>, f64) {
    // half of the cases are NaN-free so that the exact min/max oracles apply
    let clean = rng.bool();
    let one = |rng: &mut Rng| loop {
        let v = gen_f64_one(rng);
        if !(clean && v.is_nan()) {
            return v;
        }
    };
    let a: Vec<f64> = (0..n).map(|_| one(rng)).collect();
    let b: Vec<f64> = (0..n).map(|i| if rng.chance(1, 4) { a[i] } else { one(rng) }).collect();
    let s = one(rng);
    (a, b, s)
}
/// truth patterns for reduce_and / reduce_or: all false, all true, exactly one false, exactly one
/// true, random
fn gen_truth(rng: &mut Rng, n: usize) -> Vec<bool> {
    let l = rng.usize_below(n);
    match rng.below(6) {
        0 => vec![false; n],
        1 => vec![true; n],
        2 => (0..n).map(|i| i != l).collect(),
        3 => (0..n).map(|i| i == l).collect(),
        _ => (0..n).map(|_| rng.bool()).collect(),
    }
}

// ------------------------------------------------------------------------------------------

/// element whose ordering looks at `key` only: two elements can compare equal and still be told
/// apart, so "which operand does min/max return on a tie" is observable
#[derive(Clone, Copy, Debug)]
struct Keyed {
    key: i8,
    tag: u16,
}
impl PartialEq for Keyed {
    fn eq(&self, o: &Keyed) -> bool {
        self.key == o.key
    }
}
impl Eq for Keyed {}
impl PartialOrd for Keyed {
    fn partial_cmp(&self, o: &Keyed) -> Option<std::cmp::Ordering> {
        Some(self.key.cmp(&o.key))
    }
}
impl Ord for Keyed {
    fn cmp(&self, o: &Keyed) -> std::cmp::Ordering {
        self.key.cmp(&o.key)
    }
}

macro_rules! ties_kind {
    ($V:ident, $sub:expr, $cfg:expr, $idx:expr) => {{
        let k = stringify!($V);
        let n = <$V<Keyed> as VecX<Keyed>>::DIM;
        let mut rng = Rng::for_case(&format!("ties_identity/{}", k), $cfg.case_seed(), $idx);
        let a: Vec<Keyed> = (0..n).map(|i| Keyed { key: rng.range_i64(-2, 2) as i8, tag: i as u16 }).collect();
        let b: Vec<Keyed> = (0..n).map(|i| Keyed { key: if rng.chance(1, 2) { a[i].key } else { rng.range_i64(-2, 2) as i8 }, tag: 1000 + i as u16 }).collect();
        let sc = Keyed { key: a[rng.usize_below(n)].key, tag: 5000 };
        let va = <$V<Keyed> as VecX<Keyed>>::from_fn(|i| a[i]);
        let vb = <$V<Keyed> as VecX<Keyed>>::from_fn(|i| b[i]);
        let tags = |v: &$V<Keyed>| -> Vec<u16> { (0..n).map(|i| v.at(i).tag).collect() };
        let mut h = H64::new();
        h.s(k);
        for i in 0..n {
            h.i(a[i].key as i128).i(b[i].key as i128);
        }
        let ties = (0..n).filter(|i| a[*i].key == b[*i].key).count();
        let mut cases: Vec<(String, Result<Vec<u16>, String>, Vec<u16>)> = Vec::new();
        cases.push((format!("{}::min", k), guarded(|| $V::<Keyed>::min(va, vb)).map(|v| tags(&v)), (0..n).map(|i| std::cmp::min(a[i], b[i]).tag).collect()));
        cases.push((format!("{}::max", k), guarded(|| $V::<Keyed>::max(va, vb)).map(|v| tags(&v)), (0..n).map(|i| std::cmp::max(a[i], b[i]).tag).collect()));
        cases.push((format!("{}::max", k), guarded(|| $V::<Keyed>::max(va, sc)).map(|v| tags(&v)), (0..n).map(|i| std::cmp::max(a[i], sc).tag).collect()));
        cases.push((format!("{}::min", k), guarded(|| $V::<Keyed>::min(sc, vb)).map(|v| tags(&v)), (0..n).map(|i| std::cmp::min(sc, b[i]).tag).collect()));
        cases.push((format!("{}::partial_min", k), guarded(|| $V::<Keyed>::partial_min(va, vb)).map(|v| tags(&v)), (0..n).map(|i| vek::ops::partial_min(a[i], b[i]).tag).collect()));
        cases.push((format!("{}::partial_max", k), guarded(|| $V::<Keyed>::partial_max(va, vb)).map(|v| tags(&v)), (0..n).map(|i| vek::ops::partial_max(a[i], b[i]).tag).collect()));
        for (ci, (api, got, want)) in cases.into_iter().enumerate() {
            $sub.saw(&api);
            match got {
                Ok(g) if g == want => $sub.held(h.get() ^ ci as u64, ties > 0),
                Ok(g) => {
                    let v = violation(PROP, $sub, &api, "Keyed", "wrong_value", "tie_returns_other_operand", format!("{} on elements ordered by key only: a = {:?}, b = {:?} (scalar {:?}); result tags {:?}, the scalar operation per lane gives {:?}", api, a, b, sc, g, want), $cfg.case_seed(), $idx);
                    $sub.violated(v);
                }
                Err(e) => {
                    let v = violation(PROP, $sub, &api, "Keyed", "panic", "panic", format!("{} panicked: {}", api, e), $cfg.case_seed(), $idx);
                    $sub.violated(v);
                }
            }
        }
    }};
}

fn main() {
    let cfg = Config::from_args(PROP);
    let mut rep = Report::new(cfg.clone());
    {
        let nt = cfg.n(300, 30_000);
        let proto = Sub::new("ties_identity", "min / max (vector and broadcast-scalar operand) / partial_min / partial_max of the 13 kinds on elements whose ordering ignores a payload (keys in -2..2, half of the lanes tie): the payload returned in lane i must be the one std::cmp::min / std::cmp::max / vek::ops::partial_min / partial_max return for the lane's two operands; non-trivial = at least one tie; distinct by hash of the keys")
            .with_floor(nt * 13)
            .require(&["Vec2::max", "Vec64::max", "Rgba::min", "Uvw::partial_max", "Extent3::partial_min"]);
        let s = run_cases(&cfg, proto, nt, |s, i| {
            ties_kind!(Vec2, s, &cfg, i);
            ties_kind!(Vec3, s, &cfg, i);
            ties_kind!(Vec4, s, &cfg, i);
            ties_kind!(Vec8, s, &cfg, i);
            ties_kind!(Vec16, s, &cfg, i);
            ties_kind!(Vec32, s, &cfg, i);
            ties_kind!(Vec64, s, &cfg, i);
            ties_kind!(Extent2, s, &cfg, i);
            ties_kind!(Extent3, s, &cfg, i);
            ties_kind!(Rgb, s, &cfg, i);
            ties_kind!(Rgba, s, &cfg, i);
            ties_kind!(Uv, s, &cfg, i);
            ties_kind!(Uvw, s, &cfg, i);
        });
        rep.push(s);
    }

    {
        let mut s = Sub::new(
            "ops_trace",
            "one Sym-traced execution per (vector kind, operator, operand form): 13 kinds x {Add Sub Mul Div Rem Shl Shr BitAnd BitOr BitXor} x {Vec op Vec, Vec op scalar (both via Into), Vec op &Vec, &Vec op Vec, &Vec op &Vec, &Vec op T, &Vec op &T, op-assign Vec, op-assign scalar} + Neg + Not + the 8 MulAdd trait forms + inherent mul_add with vector / broadcast-scalar arguments; operands are distinct free symbols written through the public fields, output lane i (read through the fields) must be exactly the node Op(x_i, y_i) / Op(x_i, s) / MulAdd(x_i, y_i, z_i); distinct = distinct (impl, form) pairs, every traced case is non-trivial",
        )
        .with_floor(900)
        .require(&["Add<V: Into<Vec64<T>>> for Vec64<T>", "Shl<&T> for &Rgb<T>", "BitXorAssign<V: Into<Uvw<T>>> for Uvw<T>", "MulAdd<&Extent3<T>,&Extent3<T>> for &Extent3<T>", "Vec32::mul_add", "Neg for Uv<T>", "Not for Rgba<T>", "Rem<Vec3<T>> for &Vec3<T>"]);
        if cfg.wants("ops_trace") {
            let sr = &mut s;
            macro_rules! go { ($K:ident) => {{ #[inline(never)] fn body(sr: &mut Sub, cfg: &Config) { ops_trace_kind!($K, sr, cfg); } body(sr, &cfg); }} }
            props::for_all_vec_kinds!(go);
        }
        rep.push(s);
    }
    {
        let mut s = Sub::new(
            "reduce_trace",
            "Sym-traced reductions for the 13 kinds: sum, product, average (= sum / From<u8>(dim)), dot and magnitude_squared (Vec*/Extent* only), Sum/Product over iterators of 3 and 0 vectors, iota decided as polynomial identities (PIT, 6 points of GF(2^61-1)); reduce(closure) must make exactly the calls of the left fold in element order (recording closure) and return its result; reduce_bitand/bitor/bitxor must be a tree of that one operator whose in-order leaves are all lanes once each; hadd lane i must be exactly Add(c_2i, c_2i+1) for c = self ++ rhs; distinct = distinct (kind, function, case)",
        )
        .with_floor(120)
        .require(&["Vec64::sum", "Rgb::product", "Uvw::average", "Extent2::dot", "Vec16::reduce", "Rgba::reduce_bitxor", "Vec3::hadd", "Uv::hadd", "Sum for Vec8<T>", "Product for Extent3<T>", "Vec32::iota"]);
        if cfg.wants("reduce_trace") {
            let sr = &mut s;
            macro_rules! go { ($($t:tt)*) => {{ #[inline(never)] fn body(sr: &mut Sub, cfg: &Config) { reduce_trace_kind!($($t)*, sr, cfg); } body(sr, &cfg); }} }
            for_kinds_ext!(go);
        }
        rep.push(s);
    }
    {
        let mut s = Sub::new(
            "map_family",
            "map map2 map3 apply apply2 apply3 zip on vectors of distinct Tag / i32 tokens for the 13 kinds; the closure records (arguments, returned token) per call: the closure must be called exactly dim times, each lane's argument tuple exactly once, and output lane i must hold the token returned for lane i's arguments (call order is not asserted); distinct = (kind, function)",
        )
        .with_floor(60)
        .require(&["Vec64::map3", "Rgb::apply2", "Uv::zip", "Extent3::apply3", "Vec2::map"]);
        if cfg.wants("map_family") {
            let sr = &mut s;
            macro_rules! go { ($($t:tt)*) => {{ #[inline(never)] fn body(sr: &mut Sub, cfg: &Config) { map_family_kind!($($t)*, sr, cfg); } body(sr, &cfg); }} }
            for_kinds_ext!(go);
        }
        rep.push(s);
    }
    {
        let mut s = Sub::new(
            "constructors",
            "new, broadcast, From<T>, zero, one, Zero::zero, One::one, From<tuple>, From<array>, into_tuple, into_array, from_slice and FromIterator with 0 / dim-1 / dim / dim+3 items (missing items = Default) and two vectors collected one after the other from one stream through by_ref() (exactly dim items taken each time), Display (numbers in the rendered text, in order), iota on i32 — for the 13 kinds on distinct Tag tokens, lanes read through the public fields; distinct = (kind, function, case)",
        )
        .with_floor(170)
        .require(&["Vec64::new", "From<tuple> for Vec64<T>", "Vec32::into_tuple", "From<[T; N]> for Rgb<T>", "Display for Rgba<T>", "FromIterator for Uvw<T>/short", "Extent2::from_slice/long", "Vec16::iota", "Uv::broadcast"]);
        if cfg.wants("constructors") {
            let sr = &mut s;
            macro_rules! go { ($($t:tt)*) => {{ #[inline(never)] fn body(sr: &mut Sub, cfg: &Config) { constructors_kind!($($t)*, sr, cfg); } body(sr, &cfg); }} }
            for_kinds_ext!(go);
        }
        rep.push(s);
    }

    // ---- random value sub-checks
    let nv = cfg.n(600, 12_000);
    {
        let proto = Sub::new(
            "values_q",
            "boundary-biased exact rationals (0, +-1, small integers, small fractions; b_i = a_i with probability 1/4 so ties occur; broadcast scalar often equal to an element) through partial_min/partial_max (vector and scalar-broadcast arguments), reduce_partial_min/max, the six partial_cmp* masks and their _simd aliases for the 11 kinds of dimension <= 16, each compared with the per-lane scalar result; one evaluation per (case, kind, function); distinct by hash of (function, operands)",
        )
        .with_floor(nv * 11 * 5)
        .require(&["Vec16::partial_min", "Rgb::reduce_partial_max", "Uvw::partial_cmpge", "Extent3::partial_cmplt_simd", "Vec2::partial_cmpne"]);
        let s = run_cases(&cfg, proto, nv, |s, i| {
            macro_rules! go { ($V:ident $n:tt $dot:ident $size:ident) => { when!($size small {
                #[inline(never)]
                fn body(s: &mut Sub, cfg: &Config, i: u64) {
                    let mut rng = Rng::for_case(concat!("values_q/", stringify!($V)), cfg.case_seed(), i);
                    let (a, b, sc) = gen_q(&mut rng, $n);
                    partial_kind!($V, Q, "Q", s, cfg, i, a, b, sc);
                }
                body(s, &cfg, i);
            }); } }
            for_kinds_ext!(go);
        });
        rep.push(s);
    }
    {
        let proto = Sub::new(
            "values_int",
            "i32 vectors of all 13 kinds (values biased to -4..4 for ties, plus MIN/MAX/0/-1 and random bits): min max (vector and scalar-broadcast), reduce_min/max, the six cmp* (Ord) and six partial_cmp* masks with _simd aliases, partial_min/max, reduce_partial_*, reduce_and/reduce_or (i32 all kinds, bool all kinds, u8 and Wrapping<i32> for dimension <= 16; truth patterns all-false / all-true / exactly one false / exactly one true / random), reduce_bitand/bitor/bitxor, is_any_negative, are_all_positive, and sum/average/dot on operands reduced mod 1000 (no overflow), each against the per-lane scalar definition; distinct by hash of (function, operands)",
        )
        .with_floor(nv * 13 * 12)
        .require(&["Vec64::cmpge", "Vec64::reduce_or", "Vec32::reduce_min", "Rgb::cmplt_simd", "Uvw::max", "Extent2::reduce_bitand", "Vec3::is_any_negative", "Rgba::are_all_positive", "Uv::reduce_and", "Vec8::dot"]);
        let s = run_cases(&cfg, proto, nv, |s, i| {
            macro_rules! go { ($V:ident $n:tt $dot:ident $size:ident) => {{
                #[inline(never)]
                fn body(s: &mut Sub, cfg: &Config, i: u64) {
                let mut rng = Rng::for_case(concat!("values_int/", stringify!($V)), cfg.case_seed(), i);
                let (a, b, sc) = gen_i32(&mut rng, $n);
                ord_kind!($V, i32, "i32", s, cfg, i, a.clone(), b.clone(), sc);
                partial_kind!($V, i32, "i32", s, cfg, i, a.clone(), b.clone(), sc);
                intred_kind!($V $dot, i32, "i32", s, cfg, i, a.clone(), b.clone());
                let t = gen_truth(&mut rng, $n);
                boolred_kind!($V, bool, "bool", s, cfg, i, t.clone(), |x| *x);
                {
                    // the deprecated chained `!=` of a bool vector: a left fold, i.e. the parity of the true lanes
                    let vt: $V<bool> = VecX::from_fn(|k| t[k]);
                    let mut hh = H64::new();
                    hash_els(&mut hh, &t);
                    let inp = || format!("a={:?}", t);
                    #[allow(deprecated)]
                    let g = guarded(|| vt.reduce_ne()).map(|v| vec![v]);
                    judge::<bool>(s, cfg, i, concat!(stringify!($V), "::reduce_ne"), "bool", hh.get(), g, Some(vec![t.iter().fold(false, |x, y| x != *y)]), &inp);
                }
                let ti: Vec<i32> = t.iter().map(|x| if *x { gen_i32_one(&mut rng) | 1 } else { 0 }).collect();
                boolred_kind!($V, i32, "i32", s, cfg, i, ti.clone(), |x| *x != 0);
                when!($size small {
                    let tu: Vec<u8> = t.iter().map(|x| if *x { 1 + rng.below(255) as u8 } else { 0 }).collect();
                    boolred_kind!($V, u8, "u8", s, cfg, i, tu, |x| *x != 0);
                    let tw: Vec<std::num::Wrapping<i32>> = ti.iter().map(|x| std::num::Wrapping(*x)).collect();
                    boolred_kind!($V, std::num::Wrapping<i32>, "Wrapping<i32>", s, cfg, i, tw, |x| x.0 != 0);
                });
                }
                body(s, &cfg, i);
            }} }
            for_kinds_ext!(go);
        });
        rep.push(s);
    }
    {
        let proto = Sub::new(
            "values_float",
            "f64 vectors for the 11 kinds of dimension <= 16 (half-integers, +-0, +-inf, random bit patterns; NaN lanes in half of the cases): partial_min/partial_max and reduce_partial_* (exact min/max where no NaN is involved; on a NaN lane any operand of that lane is accepted), the six partial_cmp* masks (+_simd) against the IEEE scalar comparison per lane, sqrt rsqrt recip ceil floor round against the scalar f64 function per lane (bit-equal or both NaN), reduce_and/reduce_or for f64 and f32 (x != 0, NaN is true), is_any_negative / are_all_positive against num_traits::Signed per lane; distinct by hash of (function, operands)",
        )
        .with_floor(nv * 11 * 7)
        .require(&["Vec16::sqrt", "Rgb::rsqrt", "Uvw::recip", "Extent3::ceil", "Vec2::floor", "Rgba::round", "Vec8::partial_min", "Uv::reduce_partial_max", "Vec4::reduce_and", "Extent2::reduce_or"]);
        let s = run_cases(&cfg, proto, nv, |s, i| {
            macro_rules! go { ($V:ident $n:tt $dot:ident $size:ident) => { when!($size small {
                #[inline(never)]
                fn body(s: &mut Sub, cfg: &Config, i: u64) {
                let mut rng = Rng::for_case(concat!("values_float/", stringify!($V)), cfg.case_seed(), i);
                let (a, b, sc) = gen_f64(&mut rng, $n);
                partial_kind!($V, f64, "f64", s, cfg, i, a.clone(), b.clone(), sc);
                float_kind!($V, f64, "f64", s, cfg, i, a.clone());
                let t = gen_truth(&mut rng, $n);
                let tf: Vec<f64> = t.iter().map(|x| if *x { loop { let v = gen_f64_one(&mut rng); if v != 0.0 { break v; } } } else if rng.bool() { 0.0 } else { -0.0 }).collect();
                boolred_kind!($V, f64, "f64", s, cfg, i, tf.clone(), |x| *x != 0.0);
                let tg: Vec<f32> = tf.iter().map(|x| if *x != 0.0 && (*x as f32) == 0.0 { 1.0f32 } else { *x as f32 }).collect();
                boolred_kind!($V, f32, "f32", s, cfg, i, tg, |x| *x != 0.0);
                }
                body(s, &cfg, i);
            }); } }
            for_kinds_ext!(go);
        });
        rep.push(s);
    }
    let nn = cfg.n(256, 4096);
    {
        let proto = Sub::new(
            "native_ops",
            "native operands through every operator form (Vec op Vec, Vec op scalar, Vec op &Vec, &Vec op Vec, &Vec op &Vec, &Vec op T, &Vec op &T, op-assign with vector and scalar) and the scalar-on-the-left impls (s + v, s * v: i8..u64, f32, f64): i32 for all 13 kinds and all 10 binary operators + Neg + Not; u8 and i64 (10 operators) and f64 (+ - * / %) and i8 i16 u16 u32 u64 f32 (+ *) for dimension <= 16.  Operand modes: 40% safe (no scalar op overflows), 40% safe with one hostile lane (MIN, MAX, 0, -1, BITS, BITS-1 / NaN, inf), 20% random bits.  Oracle: the same scalar operator of std applied lane by lane in the same build profile; if it panics on any lane (overflow in the checked profile, division by zero, shift amount out of range) the vector form must panic too, otherwise all lanes must be equal (floats: bit-equal or both NaN); distinct by hash of (impl, operands)",
        )
        .with_floor(nn * 13 * 30)
        .require(&["Add<Vec64<i32>> for i32", "Mul<Rgb<u8>> for u8", "Mul<Uvw<f32>> for f32", "Add<Extent3<u64>> for u64", "Shl<V: Into<Vec32<T>>> for Vec32<T>", "Div<&Rgba<T>> for &Rgba<T>", "RemAssign<V: Into<Uv<T>>> for Uv<T>", "Neg for Vec16<T>", "Not for Extent2<T>"]);
        let s = run_cases(&cfg, proto, nn, |s, i| {
            macro_rules! go { ($V:ident $n:tt $dot:ident $size:ident) => {{
                #[inline(never)]
                fn body(s: &mut Sub, cfg: &Config, i: u64) {
                nat_arith!($V, i32, s, cfg, i);
                nat_bits!($V, i32, s, cfg, i);
                nat_neg!($V, i32, s, cfg, i);
                when!($size small {
                    nat_arith!($V, u8, s, cfg, i);
                    nat_bits!($V, u8, s, cfg, i);
                    nat_arith!($V, i64, s, cfg, i);
                    nat_bits!($V, i64, s, cfg, i);
                    nat_neg!($V, i64, s, cfg, i);
                    nat_arith!($V, f64, s, cfg, i);
                    nat_neg!($V, f64, s, cfg, i);
                    nat_lefts!($V, s, cfg, i; i8, i16, u16, u32, u64, f32);
                });
                }
                body(s, &cfg, i);
            }} }
            for_kinds_ext!(go);
        });
        rep.push(s);
    }
    std::process::exit(rep.finish());
}

//! C13 — axis-aligned boxes and rectangles behave as the point sets they denote.
//!
//! Exhaustive tiers: every `Aabr<i32>` with corner coordinates on the doubled grid {0,2,4,6}
//! (valid and invalid), every pair of them, every integer point in -1..=7 (grid and half-grid
//! points); the same in 3-D on {0,2,4} with points in -1..=5.  The oracle is set semantics,
//! evaluated point by point by this file (closed-interval membership), never by vek.
//! Sampling tiers: exact rationals (`Q`) and short-dyadic `f32`/`f64` for the algebraic laws and
//! the `Real`-only methods.  Every `Rect`/`Rect3` method is compared with the box method on the
//! converted value.
//!
//! Helpers that would belong in `props`/`monitors` but live here (one-file rule): the `Space`
//! adapter trait (vek box/rect API over plain arrays, raw public fields only), the per-thread
//! entry-point counters and `run_enum` (a `run_cases` twin that flushes those counters once per
//! worker thread).

use approx::RelativeEq;
use monitors::prng::{mix2, Rng, H64};
use monitors::report::{guarded, parallel, run_cases, take_poison, Config, Report, Sub, Violation};
use monitors::Q;
use num_traits::real::Real;
use num_traits::{One, Zero};
use props::violation;
use std::cell::{Cell, RefCell};
use std::fmt::Debug;
use std::ops::{Add, Div, Mul};
use vek::geom::repr_c::{Aabb, Aabr, Rect, Rect3};
use vek::ops::Clamp;
use vek::vec::repr_c::{Extent2, Extent3, Vec2, Vec3};

const PROP: &str = "C13";

// ------------------------------------------------------------------ entry-point table

macro_rules! api_table {
    ($($id:ident = $n2:literal, $n3:literal;)*) => {
        #[allow(dead_code)]
        #[derive(Clone, Copy, PartialEq, Eq, Debug)]
        #[repr(usize)]
        enum Api { $($id),* }
        const API_NAMES: &[[&str; 2]] = &[ $([$n2, $n3]),* ];
    };
}
api_table! {
    IsValid = "Aabr::is_valid", "Aabb::is_valid";
    MakeValid = "Aabr::make_valid", "Aabb::make_valid";
    MadeValid = "Aabr::made_valid", "Aabb::made_valid";
    NewEmpty = "Aabr::new_empty", "Aabb::new_empty";
    IntoRect = "Aabr::into_rect", "Aabb::into_rect3";
    Center = "Aabr::center", "Aabb::center";
    Size = "Aabr::size", "Aabb::size";
    HalfSize = "Aabr::half_size", "Aabb::half_size";
    Union = "Aabr::union", "Aabb::union";
    Intersection = "Aabr::intersection", "Aabb::intersection";
    ExpandToContain = "Aabr::expand_to_contain", "Aabb::expand_to_contain";
    Intersect = "Aabr::intersect", "Aabb::intersect";
    ExpandedToContainPoint = "Aabr::expanded_to_contain_point", "Aabb::expanded_to_contain_point";
    ExpandToContainPoint = "Aabr::expand_to_contain_point", "Aabb::expand_to_contain_point";
    ContainsPoint = "Aabr::contains_point", "Aabb::contains_point";
    ContainsAab = "Aabr::contains_aabr", "Aabb::contains_aabb";
    CollidesWithAab = "Aabr::collides_with_aabr", "Aabb::collides_with_aabb";
    CollisionVectorWithAab = "Aabr::collision_vector_with_aabr", "Aabb::collision_vector_with_aabb";
    ProjectedPoint = "Aabr::projected_point", "Aabb::projected_point";
    DistanceToPoint = "Aabr::distance_to_point", "Aabb::distance_to_point";
    SplitAtX = "Aabr::split_at_x", "Aabb::split_at_x";
    SplitAtY = "Aabr::split_at_y", "Aabb::split_at_y";
    SplitAtZ = "-", "Aabb::split_at_z";
    Map = "Aabr::map", "Aabb::map";
    As = "Aabr::as_", "Aabb::as_";
    RectFromAab = "From<Aabr> for Rect", "From<Aabb> for Rect3";
    AabFromRect = "From<Rect> for Aabr", "From<Rect3> for Aabb";
    AabrFromAabb = "-", "From<Aabb> for Aabr";
    RNew = "Rect::new", "Rect3::new";
    RPosition = "Rect::position", "Rect3::position";
    RSetPosition = "Rect::set_position", "Rect3::set_position";
    RExtent = "Rect::extent", "Rect3::extent";
    RSetExtent = "Rect::set_extent", "Rect3::set_extent";
    RPositionExtent = "Rect::position_extent", "Rect3::position_extent";
    RFromTuple = "From<(Vec2,Extent2)> for Rect", "From<(Vec3,Extent3)> for Rect3";
    RMap = "Rect::map", "Rect3::map";
    RAs = "Rect::as_", "Rect3::as_";
    RIntoAab = "Rect::into_aabr", "Rect3::into_aabb";
    RContainsPoint = "Rect::contains_point", "Rect3::contains_point";
    RContainsRect = "Rect::contains_rect", "Rect3::contains_rect3";
    RCollidesWithRect = "Rect::collides_with_rect", "Rect3::collides_with_rect3";
    RCenter = "Rect::center", "Rect3::center";
    RExpandedToContainPoint = "Rect::expanded_to_contain_point", "Rect3::expanded_to_contain_point";
    RExpandToContainPoint = "Rect::expand_to_contain_point", "Rect3::expand_to_contain_point";
    RUnion = "Rect::union", "Rect3::union";
    RIntersection = "Rect::intersection", "Rect3::intersection";
    RExpandToContain = "Rect::expand_to_contain", "Rect3::expand_to_contain";
    RIntersect = "Rect::intersect", "Rect3::intersect";
    RCollisionVectorWithRect = "Rect::collision_vector_with_rect", "Rect3::collision_vector_with_rect3";
    RSplitAtX = "Rect::split_at_x", "Rect3::split_at_x";
    RSplitAtY = "Rect::split_at_y", "Rect3::split_at_y";
    RSplitAtZ = "-", "Rect3::split_at_z";
}
const NAPI: usize = API_NAMES.len();

thread_local! {
    /// calls per (dimension, entry point) made by this thread since the last flush
    static CNT: [[Cell<u64>; NAPI]; 2] = const { [[const { Cell::new(0) }; NAPI], [const { Cell::new(0) }; NAPI]] };
    /// the entry point most recently entered (blamed when a case panics)
    static CUR: Cell<usize> = const { Cell::new(0) };
}
#[inline]
fn at_ix(ix: usize, dim: usize) {
    CUR.with(|c| c.set(ix));
    CNT.with(|c| {
        let e = &c[dim][ix];
        e.set(e.get() + 1)
    });
}
#[inline]
fn at(a: Api, dim: usize) {
    at_ix(a as usize, dim)
}
fn flush(sub: &mut Sub) {
    CNT.with(|c| {
        for dim in 0..2 {
            for ix in 0..NAPI {
                let n = c[dim][ix].replace(0);
                if n > 0 {
                    sub.saw_n(API_NAMES[ix][dim], n);
                }
            }
        }
    });
}

/// `run_cases` twin: same case addressing / replay / sharding, plus one counter flush per worker.
fn run_enum(cfg: &Config, proto: Sub, n: u64, f: impl Fn(&mut Sub, u64) + Sync) -> Sub {
    let mut out = proto;
    if !cfg.wants(&out.name) {
        out.floor = 0;
        out.required.clear();
        return out;
    }
    if let Some(ix) = cfg.only_index {
        let mut s = out.fork();
        f(&mut s, ix);
        flush(&mut s);
        out.merge(s);
        return out;
    }
    let (sh, shn) = cfg.shard;
    let name = out.name.clone();
    let rule = out.rule.clone();
    let parts = parallel(cfg.threads, |t, tn| {
        let mut s = Sub::new(&name, &rule);
        let mut i = t as u64;
        while i < n {
            if i % shn == sh {
                f(&mut s, i);
            }
            i += tn as u64;
        }
        flush(&mut s);
        s
    });
    for p in parts {
        out.merge(p);
    }
    out
}

// ------------------------------------------------------------------ element types, plain boxes

trait El: Copy + PartialOrd + Debug + Add<Output = Self> + std::ops::Sub<Output = Self> + Mul<Output = Self> + Div<Output = Self> + One + Zero + Clamp + Send + Sync + 'static {
    const TY: &'static str;
    fn hash_into(self, h: &mut H64);
    /// n/d, exact in the type (callers only pass representable values)
    fn from_frac(n: i64, d: i64) -> Self;
    fn dens() -> &'static [i64];
}
impl El for i32 {
    const TY: &'static str = "i32";
    fn hash_into(self, h: &mut H64) {
        h.i(self as i128);
    }
    fn from_frac(n: i64, d: i64) -> i32 {
        (n / d) as i32
    }
    fn dens() -> &'static [i64] {
        &[1]
    }
}
impl El for Q {
    const TY: &'static str = "Q";
    fn hash_into(self, h: &mut H64) {
        h.u(self.hash64());
    }
    fn from_frac(n: i64, d: i64) -> Q {
        Q::frac(n, d)
    }
    fn dens() -> &'static [i64] {
        &[1, 1, 2, 3, 4, 6]
    }
}
impl El for f32 {
    const TY: &'static str = "f32";
    fn hash_into(self, h: &mut H64) {
        h.f(self as f64);
    }
    fn from_frac(n: i64, d: i64) -> f32 {
        n as f32 / d as f32
    }
    fn dens() -> &'static [i64] {
        &[1, 1, 2, 4, 8]
    }
}
impl El for f64 {
    const TY: &'static str = "f64";
    fn hash_into(self, h: &mut H64) {
        h.f(self);
    }
    fn from_frac(n: i64, d: i64) -> f64 {
        n as f64 / d as f64
    }
    fn dens() -> &'static [i64] {
        &[1, 1, 2, 4, 8]
    }
}

macro_rules! impl_el_unsigned {
    ($($T:ident),+) => {$(
        impl El for $T {
            const TY: &'static str = stringify!($T);
            fn hash_into(self, h: &mut H64) { h.i(self as i128); }
            fn from_frac(n: i64, d: i64) -> $T { (n / d) as $T }
            fn dens() -> &'static [i64] { &[1] }
        }
        impl UEl for $T {
            const MAXI: i64 = $T::MAX as i64;
            fn to_i(self) -> i64 { self as i64 }
            fn of_i(i: i64) -> $T { assert!(i >= 0 && i <= $T::MAX as i64, "harness: {} does not fit {}", i, stringify!($T)); i as $T }
        }
    )+};
}
/// unsigned element (pixel / grid coordinates)
trait UEl: El {
    const MAXI: i64;
    fn to_i(self) -> i64;
    fn of_i(i: i64) -> Self;
}
impl_el_unsigned!(u8, u16, u32);

/// Real-valued element: how a distance is judged.
trait RealEl: El + Real + RelativeEq {
    /// is `r` the non-negative root of `sumsq`?  `None` = cannot be judged (ill-conditioned)
    fn dist_ok(r: Self, sumsq: Self) -> Option<bool>;
}
impl RealEl for Q {
    fn dist_ok(r: Q, s: Q) -> Option<bool> {
        Some(r >= Q::ZERO && r * r == s)
    }
}
impl RealEl for f32 {
    fn dist_ok(r: f32, s: f32) -> Option<bool> {
        let e = (s as f64).sqrt();
        if !e.is_finite() {
            return None;
        }
        Some(((r as f64) - e).abs() <= 64.0 * f32::EPSILON as f64 * e.max(1.0))
    }
}
impl RealEl for f64 {
    fn dist_ok(r: f64, s: f64) -> Option<bool> {
        let e = s.sqrt();
        if !e.is_finite() {
            return None;
        }
        Some((r - e).abs() <= 64.0 * f64::EPSILON * e.max(1.0))
    }
}

/// a box as the harness sees it: two corner arrays
#[derive(Clone, Copy, PartialEq, Debug)]
struct Bx<T, const D: usize> {
    min: [T; D],
    max: [T; D],
}
/// a rectangle as the harness sees it: position and extent arrays
#[derive(Clone, Copy, PartialEq, Debug)]
struct Rc<T, const D: usize> {
    pos: [T; D],
    ext: [T; D],
}

// ------------------------------------------------------------------ vek adapter

/// vek's box / rectangle API over plain arrays.  Values go in and come out through the raw
/// public fields only.  Every wrapper records the entry point it is about to call.
trait Space<T: El, const D: usize> {
    const DIM: usize;
    fn is_valid(b: Bx<T, D>) -> bool;
    fn make_valid(b: Bx<T, D>) -> Bx<T, D>;
    fn made_valid(b: Bx<T, D>) -> Bx<T, D>;
    fn new_empty(p: [T; D]) -> Bx<T, D>;
    fn into_rect(b: Bx<T, D>) -> Rc<T, D>;
    fn center(b: Bx<T, D>) -> [T; D];
    fn size(b: Bx<T, D>) -> [T; D];
    fn half_size(b: Bx<T, D>) -> [T; D];
    fn union(a: Bx<T, D>, b: Bx<T, D>) -> Bx<T, D>;
    fn intersection(a: Bx<T, D>, b: Bx<T, D>) -> Bx<T, D>;
    fn expand_to_contain(a: Bx<T, D>, b: Bx<T, D>) -> Bx<T, D>;
    fn intersect(a: Bx<T, D>, b: Bx<T, D>) -> Bx<T, D>;
    fn expanded_to_contain_point(a: Bx<T, D>, p: [T; D]) -> Bx<T, D>;
    fn expand_to_contain_point(a: Bx<T, D>, p: [T; D]) -> Bx<T, D>;
    fn contains_point(a: Bx<T, D>, p: [T; D]) -> bool;
    fn contains_aab(a: Bx<T, D>, b: Bx<T, D>) -> bool;
    fn collides_with_aab(a: Bx<T, D>, b: Bx<T, D>) -> bool;
    fn collision_vector(a: Bx<T, D>, b: Bx<T, D>) -> [T; D];
    fn projected_point(a: Bx<T, D>, p: [T; D]) -> [T; D];
    fn split_at(k: usize, a: Bx<T, D>, sp: T) -> [Bx<T, D>; 2];
    fn rect_from_aab(b: Bx<T, D>) -> Rc<T, D>;
    fn aab_from_rect(r: Rc<T, D>) -> Bx<T, D>;
    fn r_new(pos: [T; D], ext: [T; D]) -> Rc<T, D>;
    fn r_position(r: Rc<T, D>) -> [T; D];
    fn r_extent(r: Rc<T, D>) -> [T; D];
    fn r_set_position(r: Rc<T, D>, p: [T; D]) -> Rc<T, D>;
    fn r_set_extent(r: Rc<T, D>, e: [T; D]) -> Rc<T, D>;
    fn r_position_extent(r: Rc<T, D>) -> ([T; D], [T; D]);
    fn r_from_tuple(pos: [T; D], ext: [T; D]) -> Rc<T, D>;
    fn r_into_aab(r: Rc<T, D>) -> Bx<T, D>;
    fn r_contains_point(r: Rc<T, D>, p: [T; D]) -> bool;
    fn r_contains_rect(r: Rc<T, D>, o: Rc<T, D>) -> bool;
    fn r_collides_with_rect(r: Rc<T, D>, o: Rc<T, D>) -> bool;
    fn r_center(r: Rc<T, D>) -> [T; D];
    fn r_expanded_to_contain_point(r: Rc<T, D>, p: [T; D]) -> Rc<T, D>;
    fn r_expand_to_contain_point(r: Rc<T, D>, p: [T; D]) -> Rc<T, D>;
    fn r_union(r: Rc<T, D>, o: Rc<T, D>) -> Rc<T, D>;
    fn r_intersection(r: Rc<T, D>, o: Rc<T, D>) -> Rc<T, D>;
    fn r_expand_to_contain(r: Rc<T, D>, o: Rc<T, D>) -> Rc<T, D>;
    fn r_intersect(r: Rc<T, D>, o: Rc<T, D>) -> Rc<T, D>;
    fn r_collision_vector(r: Rc<T, D>, o: Rc<T, D>) -> [T; D];
    fn r_split_at(k: usize, r: Rc<T, D>, sp: T) -> [Rc<T, D>; 2];
}
trait SpaceReal<T: RealEl, const D: usize>: Space<T, D> {
    fn distance_to_point(a: Bx<T, D>, p: [T; D]) -> T;
}
/// `map` / `as_` (primitive-only): i32 sources
trait SpaceI<const D: usize>: Space<i32, D> {
    fn map_i64(b: Bx<i32, D>, f: &mut dyn FnMut(i32) -> i64) -> Bx<i64, D>;
    fn as_f64(b: Bx<i32, D>) -> Bx<f64, D>;
    fn as_u8(b: Bx<i32, D>) -> Bx<u8, D>;
    fn r_map(r: Rc<i32, D>, pf: &mut dyn FnMut(i32) -> i64, ef: &mut dyn FnMut(i32) -> u16) -> ([i64; D], [u16; D]);
    fn r_as(r: Rc<i32, D>) -> ([f32; D], [u8; D]);
}

macro_rules! impl_space {
    ($S:ident, $D:literal, $ix:literal, $Aab:ident, $Rect:ident, $Vec:ident, $Ext:ident,
     ($($p:ident $i:literal $split:ident),+), ($($e:ident $j:literal),+),
     $into_rect:ident $into_aab:ident $contains_aab:ident $collides_aab:ident $cv_aab:ident
     $contains_rect:ident $collides_rect:ident $cv_rect:ident) => {
        struct $S;
        #[allow(dead_code)]
        impl $S {
            fn v<T: Copy>(p: [T; $D]) -> $Vec<T> { $Vec { $($p: p[$i]),+ } }
            fn uv<T>(v: $Vec<T>) -> [T; $D] { let $Vec { $($p),+ } = v; [$($p),+] }
            fn e<T: Copy>(p: [T; $D]) -> $Ext<T> { $Ext { $($e: p[$j]),+ } }
            fn ue<T>(v: $Ext<T>) -> [T; $D] { let $Ext { $($e),+ } = v; [$($e),+] }
            fn a<T: Copy>(b: Bx<T, $D>) -> $Aab<T> { $Aab { min: Self::v(b.min), max: Self::v(b.max) } }
            fn ua<T>(a: $Aab<T>) -> Bx<T, $D> { Bx { min: Self::uv(a.min), max: Self::uv(a.max) } }
            fn r<T: Copy>(r: Rc<T, $D>) -> $Rect<T, T> { $Rect { $($p: r.pos[$i],)+ $($e: r.ext[$j]),+ } }
            fn ur<T>(r: $Rect<T, T>) -> Rc<T, $D> { let $Rect { $($p,)+ $($e),+ } = r; Rc { pos: [$($p),+], ext: [$($e),+] } }
        }
        impl<T: El> Space<T, $D> for $S {
            const DIM: usize = $ix;
            fn is_valid(b: Bx<T, $D>) -> bool { at(Api::IsValid, $ix); Self::a(b).is_valid() }
            fn make_valid(b: Bx<T, $D>) -> Bx<T, $D> { at(Api::MakeValid, $ix); let mut x = Self::a(b); x.make_valid(); Self::ua(x) }
            fn made_valid(b: Bx<T, $D>) -> Bx<T, $D> { at(Api::MadeValid, $ix); Self::ua(Self::a(b).made_valid()) }
            fn new_empty(p: [T; $D]) -> Bx<T, $D> { at(Api::NewEmpty, $ix); Self::ua($Aab::new_empty(Self::v(p))) }
            fn into_rect(b: Bx<T, $D>) -> Rc<T, $D> { at(Api::IntoRect, $ix); Self::ur(Self::a(b).$into_rect()) }
            fn center(b: Bx<T, $D>) -> [T; $D] { at(Api::Center, $ix); Self::uv(Self::a(b).center()) }
            fn size(b: Bx<T, $D>) -> [T; $D] { at(Api::Size, $ix); Self::ue(Self::a(b).size()) }
            fn half_size(b: Bx<T, $D>) -> [T; $D] { at(Api::HalfSize, $ix); Self::ue(Self::a(b).half_size()) }
            fn union(a: Bx<T, $D>, b: Bx<T, $D>) -> Bx<T, $D> { at(Api::Union, $ix); Self::ua(Self::a(a).union(Self::a(b))) }
            fn intersection(a: Bx<T, $D>, b: Bx<T, $D>) -> Bx<T, $D> { at(Api::Intersection, $ix); Self::ua(Self::a(a).intersection(Self::a(b))) }
            fn expand_to_contain(a: Bx<T, $D>, b: Bx<T, $D>) -> Bx<T, $D> { at(Api::ExpandToContain, $ix); let mut x = Self::a(a); x.expand_to_contain(Self::a(b)); Self::ua(x) }
            fn intersect(a: Bx<T, $D>, b: Bx<T, $D>) -> Bx<T, $D> { at(Api::Intersect, $ix); let mut x = Self::a(a); x.intersect(Self::a(b)); Self::ua(x) }
            fn expanded_to_contain_point(a: Bx<T, $D>, p: [T; $D]) -> Bx<T, $D> { at(Api::ExpandedToContainPoint, $ix); Self::ua(Self::a(a).expanded_to_contain_point(Self::v(p))) }
            fn expand_to_contain_point(a: Bx<T, $D>, p: [T; $D]) -> Bx<T, $D> { at(Api::ExpandToContainPoint, $ix); let mut x = Self::a(a); x.expand_to_contain_point(Self::v(p)); Self::ua(x) }
            fn contains_point(a: Bx<T, $D>, p: [T; $D]) -> bool { at(Api::ContainsPoint, $ix); Self::a(a).contains_point(Self::v(p)) }
            fn contains_aab(a: Bx<T, $D>, b: Bx<T, $D>) -> bool { at(Api::ContainsAab, $ix); Self::a(a).$contains_aab(Self::a(b)) }
            fn collides_with_aab(a: Bx<T, $D>, b: Bx<T, $D>) -> bool { at(Api::CollidesWithAab, $ix); Self::a(a).$collides_aab(Self::a(b)) }
            fn collision_vector(a: Bx<T, $D>, b: Bx<T, $D>) -> [T; $D] { at(Api::CollisionVectorWithAab, $ix); Self::uv(Self::a(a).$cv_aab(Self::a(b))) }
            fn projected_point(a: Bx<T, $D>, p: [T; $D]) -> [T; $D] { at(Api::ProjectedPoint, $ix); Self::uv(Self::a(a).projected_point(Self::v(p))) }
            fn split_at(k: usize, a: Bx<T, $D>, sp: T) -> [Bx<T, $D>; 2] {
                match k {
                    $($i => { at_ix(Api::SplitAtX as usize + $i, $ix); let s = Self::a(a).$split(sp); [Self::ua(s[0]), Self::ua(s[1])] })+
                    _ => unreachable!(),
                }
            }
            fn rect_from_aab(b: Bx<T, $D>) -> Rc<T, $D> { at(Api::RectFromAab, $ix); Self::ur(<$Rect<T, T> as From<$Aab<T>>>::from(Self::a(b))) }
            fn aab_from_rect(r: Rc<T, $D>) -> Bx<T, $D> { at(Api::AabFromRect, $ix); Self::ua(<$Aab<T> as From<$Rect<T, T>>>::from(Self::r(r))) }
            fn r_new(pos: [T; $D], ext: [T; $D]) -> Rc<T, $D> { at(Api::RNew, $ix); Self::ur($Rect::new($(pos[$i],)+ $(ext[$j]),+)) }
            fn r_position(r: Rc<T, $D>) -> [T; $D] { at(Api::RPosition, $ix); Self::uv(Self::r(r).position()) }
            fn r_extent(r: Rc<T, $D>) -> [T; $D] { at(Api::RExtent, $ix); Self::ue(Self::r(r).extent()) }
            fn r_set_position(r: Rc<T, $D>, p: [T; $D]) -> Rc<T, $D> { at(Api::RSetPosition, $ix); let mut x = Self::r(r); x.set_position(Self::v(p)); Self::ur(x) }
            fn r_set_extent(r: Rc<T, $D>, e: [T; $D]) -> Rc<T, $D> { at(Api::RSetExtent, $ix); let mut x = Self::r(r); x.set_extent(Self::e(e)); Self::ur(x) }
            fn r_position_extent(r: Rc<T, $D>) -> ([T; $D], [T; $D]) { at(Api::RPositionExtent, $ix); let (p, e) = Self::r(r).position_extent(); (Self::uv(p), Self::ue(e)) }
            fn r_from_tuple(pos: [T; $D], ext: [T; $D]) -> Rc<T, $D> { at(Api::RFromTuple, $ix); Self::ur(<$Rect<T, T> as From<($Vec<T>, $Ext<T>)>>::from((Self::v(pos), Self::e(ext)))) }
            fn r_into_aab(r: Rc<T, $D>) -> Bx<T, $D> { at(Api::RIntoAab, $ix); Self::ua(Self::r(r).$into_aab()) }
            fn r_contains_point(r: Rc<T, $D>, p: [T; $D]) -> bool { at(Api::RContainsPoint, $ix); Self::r(r).contains_point(Self::v(p)) }
            fn r_contains_rect(r: Rc<T, $D>, o: Rc<T, $D>) -> bool { at(Api::RContainsRect, $ix); Self::r(r).$contains_rect(Self::r(o)) }
            fn r_collides_with_rect(r: Rc<T, $D>, o: Rc<T, $D>) -> bool { at(Api::RCollidesWithRect, $ix); Self::r(r).$collides_rect(Self::r(o)) }
            fn r_center(r: Rc<T, $D>) -> [T; $D] { at(Api::RCenter, $ix); Self::uv(Self::r(r).center()) }
            fn r_expanded_to_contain_point(r: Rc<T, $D>, p: [T; $D]) -> Rc<T, $D> { at(Api::RExpandedToContainPoint, $ix); Self::ur(Self::r(r).expanded_to_contain_point(Self::v(p))) }
            fn r_expand_to_contain_point(r: Rc<T, $D>, p: [T; $D]) -> Rc<T, $D> { at(Api::RExpandToContainPoint, $ix); let mut x = Self::r(r); x.expand_to_contain_point(Self::v(p)); Self::ur(x) }
            fn r_union(r: Rc<T, $D>, o: Rc<T, $D>) -> Rc<T, $D> { at(Api::RUnion, $ix); Self::ur(Self::r(r).union(Self::r(o))) }
            fn r_intersection(r: Rc<T, $D>, o: Rc<T, $D>) -> Rc<T, $D> { at(Api::RIntersection, $ix); Self::ur(Self::r(r).intersection(Self::r(o))) }
            fn r_expand_to_contain(r: Rc<T, $D>, o: Rc<T, $D>) -> Rc<T, $D> { at(Api::RExpandToContain, $ix); let mut x = Self::r(r); x.expand_to_contain(Self::r(o)); Self::ur(x) }
            fn r_intersect(r: Rc<T, $D>, o: Rc<T, $D>) -> Rc<T, $D> { at(Api::RIntersect, $ix); let mut x = Self::r(r); x.intersect(Self::r(o)); Self::ur(x) }
            fn r_collision_vector(r: Rc<T, $D>, o: Rc<T, $D>) -> [T; $D] { at(Api::RCollisionVectorWithRect, $ix); Self::uv(Self::r(r).$cv_rect(Self::r(o))) }
            fn r_split_at(k: usize, r: Rc<T, $D>, sp: T) -> [Rc<T, $D>; 2] {
                match k {
                    $($i => { at_ix(Api::RSplitAtX as usize + $i, $ix); let s = Self::r(r).$split(sp); [Self::ur(s[0]), Self::ur(s[1])] })+
                    _ => unreachable!(),
                }
            }
        }
        impl<T: RealEl> SpaceReal<T, $D> for $S {
            fn distance_to_point(a: Bx<T, $D>, p: [T; $D]) -> T { at(Api::DistanceToPoint, $ix); Self::a(a).distance_to_point(Self::v(p)) }
        }
        impl SpaceI<$D> for $S {
            fn map_i64(b: Bx<i32, $D>, f: &mut dyn FnMut(i32) -> i64) -> Bx<i64, $D> { at(Api::Map, $ix); Self::ua(Self::a(b).map(|c| f(c))) }
            fn as_f64(b: Bx<i32, $D>) -> Bx<f64, $D> { at(Api::As, $ix); Self::ua(Self::a(b).as_::<f64>()) }
            fn as_u8(b: Bx<i32, $D>) -> Bx<u8, $D> { at(Api::As, $ix); Self::ua(Self::a(b).as_::<u8>()) }
            fn r_map(r: Rc<i32, $D>, pf: &mut dyn FnMut(i32) -> i64, ef: &mut dyn FnMut(i32) -> u16) -> ([i64; $D], [u16; $D]) {
                at(Api::RMap, $ix);
                let $Rect { $($p,)+ $($e),+ } = Self::r(r).map(|c| pf(c), |c| ef(c));
                ([$($p),+], [$($e),+])
            }
            fn r_as(r: Rc<i32, $D>) -> ([f32; $D], [u8; $D]) {
                at(Api::RAs, $ix);
                let $Rect { $($p,)+ $($e),+ } = Self::r(r).as_::<f32, u8>();
                ([$($p),+], [$($e),+])
            }
        }
    };
}
impl_space!(S2, 2, 0, Aabr, Rect, Vec2, Extent2, (x 0 split_at_x, y 1 split_at_y), (w 0, h 1),
    into_rect into_aabr contains_aabr collides_with_aabr collision_vector_with_aabr
    contains_rect collides_with_rect collision_vector_with_rect);
impl_space!(S3, 3, 1, Aabb, Rect3, Vec3, Extent3, (x 0 split_at_x, y 1 split_at_y, z 2 split_at_z), (w 0, h 1, d 2),
    into_rect3 into_aabb contains_aabb collides_with_aabb collision_vector_with_aabb
    contains_rect3 collides_with_rect3 collision_vector_with_rect3);

// ------------------------------------------------------------------ set-semantic oracle (no vek)

fn mn<T: PartialOrd>(a: T, b: T) -> T {
    if b < a {
        b
    } else {
        a
    }
}
fn mx<T: PartialOrd>(a: T, b: T) -> T {
    if b > a {
        b
    } else {
        a
    }
}
fn abs_t<T: El>(x: T) -> T {
    if x < T::zero() {
        T::zero() - x
    } else {
        x
    }
}
fn o_valid<T: El, const D: usize>(b: Bx<T, D>) -> bool {
    (0..D).all(|k| b.min[k] <= b.max[k])
}
fn o_positive<T: El, const D: usize>(b: Bx<T, D>) -> bool {
    (0..D).all(|k| b.min[k] < b.max[k])
}
/// closed-interval membership on every axis
fn o_contains<T: El, const D: usize>(b: Bx<T, D>, p: [T; D]) -> bool {
    (0..D).all(|k| b.min[k] <= p[k] && p[k] <= b.max[k])
}
/// interior membership
fn o_strict<T: El, const D: usize>(b: Bx<T, D>, p: [T; D]) -> bool {
    (0..D).all(|k| b.min[k] < p[k] && p[k] < b.max[k])
}
fn o_union<T: El, const D: usize>(a: Bx<T, D>, b: Bx<T, D>) -> Bx<T, D> {
    let mut r = a;
    for k in 0..D {
        r.min[k] = mn(a.min[k], b.min[k]);
        r.max[k] = mx(a.max[k], b.max[k]);
    }
    r
}
fn o_inter<T: El, const D: usize>(a: Bx<T, D>, b: Bx<T, D>) -> Bx<T, D> {
    let mut r = a;
    for k in 0..D {
        r.min[k] = mx(a.min[k], b.min[k]);
        r.max[k] = mn(a.max[k], b.max[k]);
    }
    r
}
fn o_made_valid<T: El, const D: usize>(a: Bx<T, D>) -> Bx<T, D> {
    let mut r = a;
    for k in 0..D {
        if a.min[k] > a.max[k] {
            r.min[k] = a.max[k];
            r.max[k] = a.min[k];
        }
    }
    r
}
/// Aab -> Rect: position = min, extent = max - min
fn o_rect<T: El, const D: usize>(b: Bx<T, D>) -> Rc<T, D> {
    let mut ext = b.max;
    for k in 0..D {
        ext[k] = b.max[k] - b.min[k];
    }
    Rc { pos: b.min, ext }
}
/// Rect -> Aab: min = position, max = position + extent
fn o_aab<T: El, const D: usize>(r: Rc<T, D>) -> Bx<T, D> {
    let mut max = r.pos;
    for k in 0..D {
        max[k] = r.pos[k] + r.ext[k];
    }
    Bx { min: r.pos, max }
}
fn o_point_box<T: El, const D: usize>(p: [T; D]) -> Bx<T, D> {
    Bx { min: p, max: p }
}
fn with<T: Copy, const D: usize>(mut p: [T; D], k: usize, v: T) -> [T; D] {
    p[k] = v;
    p
}

// ------------------------------------------------------------------ per-case context

const MAX_FAILS_PER_CASE: usize = 6;

struct Cx<'a> {
    sub: &'a mut Sub,
    dim: usize,
    ty: &'static str,
    seed: u64,
    idx: u64,
    fails: Vec<Violation>,
    dropped: u64,
}
impl<'a> Cx<'a> {
    fn fail_ix(&mut self, ix: usize, class: &str, what: &str, detail: String) {
        if self.fails.len() >= MAX_FAILS_PER_CASE {
            self.dropped += 1;
            return;
        }
        let v = violation(PROP, self.sub, API_NAMES[ix][self.dim], self.ty, class, what, detail, self.seed, self.idx);
        self.fails.push(v);
    }
    fn fail(&mut self, api: Api, what: &str, detail: String) {
        self.fail_ix(api as usize, "wrong_value", what, detail)
    }
}

/// what the body says about its case
struct Outcome {
    nontrivial: bool,
    /// `None` for enumerations that cannot repeat
    hash: Option<u64>,
    /// `Some(reason)`: the case is outside the property's domain / cannot be judged
    inconclusive: Option<String>,
}
impl Outcome {
    fn enumerated(nontrivial: bool) -> Outcome {
        Outcome { nontrivial, hash: None, inconclusive: None }
    }
}

fn run_case(sub: &mut Sub, dim: usize, ty: &'static str, seed: u64, idx: u64, describe: &dyn Fn() -> String, body: impl FnOnce(&mut Cx) -> Outcome) {
    let _ = take_poison();
    let mut cx = Cx { sub, dim, ty, seed, idx, fails: Vec::new(), dropped: 0 };
    let r = guarded(|| body(&mut cx));
    let out = match r {
        Ok(o) => Some(o),
        Err(msg) => {
            let ix = CUR.with(|c| c.get());
            cx.fail_ix(ix, "panic", "unexpected_panic", format!("{}: panicked in {}: {}", describe(), API_NAMES[ix][dim], msg));
            None
        }
    };
    let Cx { sub, fails, .. } = cx;
    let poison = take_poison();
    if fails.is_empty() {
        if let Some(p) = poison {
            sub.inconclusive(&format!("poison:{}", p));
            return;
        }
        let out = out.expect("no failure recorded implies the body returned");
        if let Some(r) = out.inconclusive {
            sub.inconclusive(&r);
            return;
        }
        if out.nontrivial {
            sub.sample(|| describe());
        }
        match out.hash {
            None => sub.held_enumerated(out.nontrivial),
            Some(h) => sub.held(h, out.nontrivial),
        }
    } else {
        // a violated case is conclusive too: it counts towards the distinct non-trivial floor
        if let Some(o) = &out {
            if o.nontrivial && o.inconclusive.is_none() {
                sub.nontrivial += 1;
                match o.hash {
                    None => sub.distinct_enumerated += 1,
                    Some(h) => {
                        sub.distinct.insert(h);
                    }
                }
            }
        }
        let mut it = fails.into_iter();
        sub.violated(it.next().unwrap());
        for v in it {
            sub.add_violation(v);
        }
    }
}

// ------------------------------------------------------------------ algebraic checks (any exact element type)

/// one box: validity, repair, centre/size/half-size, conversions, rectangle accessors
fn chk_box<T: El, const D: usize, S: Space<T, D>>(cx: &mut Cx, a: Bx<T, D>) {
    let ov = o_valid(a);
    let v = S::is_valid(a);
    if v != ov {
        cx.fail(Api::IsValid, "min_le_max_on_each_axis", format!("{:?}.is_valid() = {}, expected {}", a, v, ov));
    }
    let exp = o_made_valid(a);
    let m = S::make_valid(a);
    if m != exp {
        cx.fail(Api::MakeValid, "swap_only_offending_axes", format!("{:?}.make_valid() -> {:?}, expected {:?}", a, m, exp));
    }
    let m = S::made_valid(a);
    if m != exp {
        cx.fail(Api::MadeValid, "swap_only_offending_axes", format!("{:?}.made_valid() = {:?}, expected {:?}", a, m, exp));
    }
    let two = T::one() + T::one();
    let (mut ec, mut es, mut eh) = (a.min, a.min, a.min);
    for k in 0..D {
        ec[k] = (a.min[k] + a.max[k]) / two;
        es[k] = a.max[k] - a.min[k];
        eh[k] = (a.max[k] - a.min[k]) / two;
    }
    let c = S::center(a);
    if c != ec {
        cx.fail(Api::Center, "midpoint_of_corners", format!("{:?}.center() = {:?}, expected {:?}", a, c, ec));
    }
    let s = S::size(a);
    if s != es {
        cx.fail(Api::Size, "max_minus_min", format!("{:?}.size() = {:?}, expected {:?}", a, s, es));
    }
    let h = S::half_size(a);
    if h != eh {
        cx.fail(Api::HalfSize, "half_of_max_minus_min", format!("{:?}.half_size() = {:?}, expected {:?}", a, h, eh));
    }
    // conversions both ways
    let r = o_rect(a);
    let x = S::into_rect(a);
    if x != r {
        cx.fail(Api::IntoRect, "position_min_extent_max_minus_min", format!("{:?}.into_rect() = {:?}, expected {:?}", a, x, r));
    }
    let x = S::rect_from_aab(a);
    if x != r {
        cx.fail(Api::RectFromAab, "position_min_extent_max_minus_min", format!("Rect::from({:?}) = {:?}, expected {:?}", a, x, r));
    }
    let back = o_aab(r);
    let x = S::aab_from_rect(r);
    if x != back {
        cx.fail(Api::AabFromRect, "min_position_max_position_plus_extent", format!("Aab::from({:?}) = {:?}, expected {:?}", r, x, back));
    }
    let x = S::r_into_aab(r);
    if x != back {
        cx.fail(Api::RIntoAab, "min_position_max_position_plus_extent", format!("{:?}.into_aab() = {:?}, expected {:?}", r, x, back));
    }
    // rectangle constructors / accessors
    let x = S::r_new(r.pos, r.ext);
    if x != r {
        cx.fail(Api::RNew, "fields_in_argument_order", format!("Rect::new(pos {:?}, ext {:?}) = {:?}", r.pos, r.ext, x));
    }
    let x = S::r_from_tuple(r.pos, r.ext);
    if x != r {
        cx.fail(Api::RFromTuple, "fields_from_tuple", format!("Rect::from((pos {:?}, ext {:?})) = {:?}", r.pos, r.ext, x));
    }
    let x = S::r_position(r);
    if x != r.pos {
        cx.fail(Api::RPosition, "position_fields", format!("{:?}.position() = {:?}", r, x));
    }
    let x = S::r_extent(r);
    if x != r.ext {
        cx.fail(Api::RExtent, "extent_fields", format!("{:?}.extent() = {:?}", r, x));
    }
    let x = S::r_position_extent(r);
    if x != (r.pos, r.ext) {
        cx.fail(Api::RPositionExtent, "position_and_extent_fields", format!("{:?}.position_extent() = {:?}", r, x));
    }
    // setters: new values are distinct per slot so that a crossed assignment shows
    let (mut np, mut ne) = (r.pos, r.ext);
    for k in 0..D {
        np[k] = r.ext[k] + T::from_frac(10 + k as i64, 1);
        ne[k] = r.pos[k] + T::from_frac(20 + k as i64, 1);
    }
    let x = S::r_set_position(r, np);
    if x != (Rc { pos: np, ext: r.ext }) {
        cx.fail(Api::RSetPosition, "only_position_replaced", format!("{:?}.set_position({:?}) -> {:?}", r, np, x));
    }
    let x = S::r_set_extent(r, ne);
    if x != (Rc { pos: r.pos, ext: ne }) {
        cx.fail(Api::RSetExtent, "only_extent_replaced", format!("{:?}.set_extent({:?}) -> {:?}", r, ne, x));
    }
    // rectangle centre == box centre of the converted value
    let x = S::r_center(r);
    let y = S::center(back);
    if x != y {
        cx.fail(Api::RCenter, "differs_from_box_method_on_converted_value", format!("{:?}.center() = {:?}, box method on {:?} gives {:?}", r, x, back, y));
    }
}

/// split at `sp` on axis `k`; caller guarantees a.min[k] <= sp <= a.max[k]
fn chk_split<T: El, const D: usize, S: Space<T, D>>(cx: &mut Cx, a: Bx<T, D>, k: usize, sp: T) -> [Bx<T, D>; 2] {
    let api = Api::SplitAtX as usize + k;
    let [lo, hi] = S::split_at(k, a, sp);
    let elo = Bx { min: a.min, max: with(a.max, k, sp) };
    let ehi = Bx { min: with(a.min, k, sp), max: a.max };
    if lo != elo || hi != ehi {
        let what = if lo.max[k] != sp || hi.min[k] != sp { "halves_do_not_share_the_face_at_sp" } else { "other_bounds_changed" };
        cx.fail_ix(api, "wrong_value", what, format!("{:?} split on axis {} at {:?} = [{:?}, {:?}], expected [{:?}, {:?}]", a, k, sp, lo, hi, elo, ehi));
    } else if o_union(lo, hi) != a {
        cx.fail_ix(api, "wrong_value", "halves_do_not_union_to_box", format!("{:?} split on axis {} at {:?} = [{:?}, {:?}]", a, k, sp, lo, hi));
    }
    let r = o_rect(a);
    let rs = S::r_split_at(k, r, sp);
    let conv = S::split_at(k, o_aab(r), sp);
    let exp = [o_rect(conv[0]), o_rect(conv[1])];
    if rs != exp {
        cx.fail_ix(Api::RSplitAtX as usize + k, "wrong_value", "differs_from_box_method_on_converted_value", format!("{:?} split on axis {} at {:?} = {:?}, box method gives {:?}", r, k, sp, rs, exp));
    }
    [lo, hi]
}

/// one box and one point
fn chk_point<T: El, const D: usize, S: Space<T, D>>(cx: &mut Cx, a: Bx<T, D>, p: [T; D]) {
    let on_boundary = (0..D).any(|k| p[k] == a.min[k] || p[k] == a.max[k]);
    let e = o_contains(a, p);
    let c = S::contains_point(a, p);
    if c != e {
        let what = if on_boundary { "point_on_boundary" } else { "point_off_boundary" };
        cx.fail(Api::ContainsPoint, what, format!("{:?}.contains_point({:?}) = {}, closed-interval membership gives {}", a, p, c, e));
    }
    let eu = o_union(a, o_point_box(p));
    let x = S::expanded_to_contain_point(a, p);
    if x != eu {
        cx.fail(Api::ExpandedToContainPoint, "componentwise_bounds", format!("{:?}.expanded_to_contain_point({:?}) = {:?}, expected {:?}", a, p, x, eu));
    }
    let y = S::expand_to_contain_point(a, p);
    if y != x {
        cx.fail(Api::ExpandToContainPoint, "in_place_differs_from_returning", format!("{:?}.expand_to_contain_point({:?}) -> {:?}, returning form gives {:?}", a, p, y, x));
    }
    if o_valid(a) {
        // nearest point of a box is separable per axis
        let mut ep = p;
        for k in 0..D {
            ep[k] = if p[k] < a.min[k] {
                a.min[k]
            } else if p[k] > a.max[k] {
                a.max[k]
            } else {
                p[k]
            };
        }
        let q = S::projected_point(a, p);
        if q != ep {
            let what = if !o_contains(a, q) { "projection_outside_box" } else { "not_the_nearest_point" };
            cx.fail(Api::ProjectedPoint, what, format!("{:?}.projected_point({:?}) = {:?}, nearest point is {:?}", a, p, q, ep));
        }
    }
    // rectangle equivalents on the converted value
    let r = o_rect(a);
    let conv = o_aab(r);
    let x = S::r_contains_point(r, p);
    let y = S::contains_point(conv, p);
    if x != y {
        cx.fail(Api::RContainsPoint, "differs_from_box_method_on_converted_value", format!("{:?}.contains_point({:?}) = {}, box method on {:?} gives {}", r, p, x, conv, y));
    }
    let x = S::r_expanded_to_contain_point(r, p);
    let y = o_rect(S::expanded_to_contain_point(conv, p));
    if x != y {
        cx.fail(Api::RExpandedToContainPoint, "differs_from_box_method_on_converted_value", format!("{:?}.expanded_to_contain_point({:?}) = {:?}, box method gives {:?}", r, p, x, y));
    }
    let z = S::r_expand_to_contain_point(r, p);
    if z != y {
        cx.fail(Api::RExpandToContainPoint, "differs_from_box_method_on_converted_value", format!("{:?}.expand_to_contain_point({:?}) -> {:?}, box method gives {:?}", r, p, z, y));
    }
}

fn overlap_class<T: El, const D: usize>(a: Bx<T, D>, b: Bx<T, D>) -> &'static str {
    let i = o_inter(a, b);
    if !o_valid(i) {
        "disjoint_boxes"
    } else if !o_positive(i) {
        "touching_boxes"
    } else {
        "overlapping_interiors"
    }
}

/// two boxes: union, intersection, containment, collision, collision vector, rectangle twins
fn chk_pair<T: El, const D: usize, S: Space<T, D>>(cx: &mut Cx, a: Bx<T, D>, b: Bx<T, D>) {
    let (va, vb) = (o_valid(a), o_valid(b));
    let eu = o_union(a, b);
    let u = S::union(a, b);
    if u != eu {
        cx.fail(Api::Union, "componentwise_bounds", format!("{:?}.union({:?}) = {:?}, expected {:?}", a, b, u, eu));
    }
    let x = S::expand_to_contain(a, b);
    if x != u {
        cx.fail(Api::ExpandToContain, "in_place_differs_from_returning", format!("{:?}.expand_to_contain({:?}) -> {:?}, union gives {:?}", a, b, x, u));
    }
    let ei = o_inter(a, b);
    let i = S::intersection(a, b);
    if i != ei {
        cx.fail(Api::Intersection, "componentwise_bounds", format!("{:?}.intersection({:?}) = {:?}, expected {:?}", a, b, i, ei));
    }
    let x = S::intersect(a, b);
    if x != i {
        cx.fail(Api::Intersect, "in_place_differs_from_returning", format!("{:?}.intersect({:?}) -> {:?}, intersection gives {:?}", a, b, x, i));
    }
    // the intersection is invalid exactly when there is no common point
    let common = o_valid(ei);
    let iv = S::is_valid(i);
    if iv != common {
        cx.fail(Api::Intersection, "validity_vs_emptiness", format!("{:?}.intersection({:?}) = {:?}: is_valid() = {}, but common points exist = {}", a, b, i, iv, common));
    }
    // containment: for a non-empty b, b is a subset of a iff both of its corners are in a
    if vb {
        let e = o_contains(a, b.min) && o_contains(a, b.max);
        let c = S::contains_aab(a, b);
        if c != e {
            let what = if e { "contained_box_reported_outside" } else { "protruding_box_reported_contained" };
            cx.fail(Api::ContainsAab, what, format!("{:?}.contains_aab({:?}) = {}, every point contained = {}", a, b, c, e));
        }
    }
    // collision of boxes of positive extent: interiors share a point
    if o_positive(a) && o_positive(b) {
        let e = o_positive(ei);
        let c = S::collides_with_aab(a, b);
        if c != e {
            cx.fail(Api::CollidesWithAab, overlap_class(a, b), format!("{:?}.collides_with_aab({:?}) = {}, interiors share a point = {}", a, b, c, e));
        }
    }
    // collision vector
    let v = S::collision_vector(a, b);
    chk_cv::<T, D>(cx, Api::CollisionVectorWithAab, a, b, v, va && vb);
    // rectangle twins on the converted values
    let (ra, rb) = (o_rect(a), o_rect(b));
    let (ca, cb) = (o_aab(ra), o_aab(rb));
    macro_rules! twin {
        ($api:ident, $rm:ident, $bm:ident, rect) => {{
            let x = S::$rm(ra, rb);
            let y = o_rect(S::$bm(ca, cb));
            if x != y {
                cx.fail(Api::$api, "differs_from_box_method_on_converted_value", format!("{:?}.{}({:?}) = {:?}, box method on ({:?}, {:?}) gives {:?}", ra, stringify!($rm), rb, x, ca, cb, y));
            }
        }};
        ($api:ident, $rm:ident, $bm:ident, plain) => {{
            let x = S::$rm(ra, rb);
            let y = S::$bm(ca, cb);
            if x != y {
                cx.fail(Api::$api, "differs_from_box_method_on_converted_value", format!("{:?}.{}({:?}) = {:?}, box method on ({:?}, {:?}) gives {:?}", ra, stringify!($rm), rb, x, ca, cb, y));
            }
        }};
    }
    twin!(RUnion, r_union, union, rect);
    twin!(RIntersection, r_intersection, intersection, rect);
    twin!(RExpandToContain, r_expand_to_contain, union, rect);
    twin!(RIntersect, r_intersect, intersection, rect);
    twin!(RContainsRect, r_contains_rect, contains_aab, plain);
    twin!(RCollidesWithRect, r_collides_with_rect, collides_with_aab, plain);
    twin!(RCollisionVectorWithRect, r_collision_vector, collision_vector, plain);
}

/// touch law for every component; for two valid boxes also "the shorter of the two touching moves"
fn chk_cv<T: El, const D: usize>(cx: &mut Cx, api: Api, a: Bx<T, D>, b: Bx<T, D>, v: [T; D], both_valid: bool) {
    for k in 0..D {
        // translate `a` by -v[k] along axis k
        let (nmin, nmax) = (a.min[k] - v[k], a.max[k] - v[k]);
        let touch_low = nmax == b.min[k];
        let touch_high = nmin == b.max[k];
        if !(touch_low || touch_high) {
            cx.fail(api, "translated_box_does_not_touch", format!("self={:?} other={:?}: collision vector {:?}; moving self by -{:?} on axis {} gives [{:?},{:?}] which does not touch other's [{:?},{:?}]", a, b, v, v[k], k, nmin, nmax, b.min[k], b.max[k]));
            continue;
        }
        if both_valid {
            // the two moves that make the boxes touch on this axis
            let d1 = a.max[k] - b.min[k];
            let d2 = a.min[k] - b.max[k];
            let other = if v[k] == d1 { d2 } else { d1 };
            if abs_t(v[k]) > abs_t(other) {
                cx.fail(api, "not_the_shorter_touching_move", format!("self={:?} other={:?}: component {} of the collision vector is {:?}, but moving by {:?} also makes the boxes touch on that axis (penetration is the smaller one)", a, b, k, v[k], other));
            }
        }
    }
}

// ------------------------------------------------------------------ grid enumeration (i32, doubled coordinates)

type P<const D: usize> = [i32; D];

/// box number `id` of the g^(2D) boxes whose corner coordinates are in {0,2,..,2(g-1)}
fn box_from_id<const D: usize>(mut id: u64, g: u64) -> Bx<i32, D> {
    let mut b = Bx { min: [0; D], max: [0; D] };
    for k in 0..D {
        b.min[k] = 2 * (id % g) as i32;
        id /= g;
    }
    for k in 0..D {
        b.max[k] = 2 * (id % g) as i32;
        id /= g;
    }
    b
}
fn nboxes(d: u32, g: u64) -> u64 {
    g.pow(2 * d)
}
/// all integer points of [lo, hi]^D
fn points<const D: usize>(lo: i32, hi: i32) -> Vec<P<D>> {
    let n = (hi - lo + 1) as usize;
    let mut out = Vec::with_capacity(n.pow(D as u32));
    let mut p = [lo; D];
    loop {
        out.push(p);
        let mut k = 0;
        loop {
            if k == D {
                return out;
            }
            if p[k] < hi {
                p[k] += 1;
                break;
            }
            p[k] = lo;
            k += 1;
        }
    }
}
fn d2<const D: usize>(a: P<D>, b: P<D>) -> i64 {
    (0..D).map(|k| ((a[k] - b[k]) as i64).pow(2)).sum()
}
/// the 2D boxes obtained by pulling one face of `u` inwards by one half-grid step
fn shrunk<const D: usize>(u: Bx<i32, D>) -> Vec<Bx<i32, D>> {
    let mut v = Vec::with_capacity(2 * D);
    for k in 0..D {
        v.push(Bx { min: with(u.min, k, u.min[k] + 1), max: u.max });
        v.push(Bx { min: u.min, max: with(u.max, k, u.max[k] - 1) });
    }
    v
}

/// pointwise set semantics of the pair operations
fn chk_pair_points<const D: usize, S: Space<i32, D>>(cx: &mut Cx, a: Bx<i32, D>, b: Bx<i32, D>, pts: &[P<D>]) {
    let (va, vb) = (o_valid(a), o_valid(b));
    let u = S::union(a, b);
    let i = S::intersection(a, b);
    let mut any_common = false;
    let mut b_subset_a = true;
    let mut interiors_meet = false;
    let mut inter_bad: Option<P<D>> = None;
    let mut union_bad: Option<P<D>> = None;
    for &p in pts {
        let (ina, inb) = (o_contains(a, p), o_contains(b, p));
        if ina && inb {
            any_common = true;
        }
        if inb && !ina {
            b_subset_a = false;
        }
        if o_strict(a, p) && o_strict(b, p) {
            interiors_meet = true;
        }
        if (ina && inb) != o_contains(i, p) && inter_bad.is_none() {
            inter_bad = Some(p);
        }
        if (ina || inb) && !o_contains(u, p) && union_bad.is_none() {
            union_bad = Some(p);
        }
    }
    if let Some(p) = inter_bad {
        cx.fail(Api::Intersection, "point_set_is_not_the_common_points", format!("{:?}.intersection({:?}) = {:?}: point {:?} (doubled coordinates) is in both operands = {}, in the result = {}", a, b, i, p, o_contains(a, p) && o_contains(b, p), o_contains(i, p)));
    }
    let iv = S::is_valid(i);
    if iv == !any_common {
        cx.fail(Api::Intersection, "validity_vs_emptiness", format!("{:?}.intersection({:?}) = {:?}: is_valid() = {}, common points exist = {}", a, b, i, iv, any_common));
    }
    if va && vb {
        if let Some(p) = union_bad {
            cx.fail(Api::Union, "misses_a_point_of_an_operand", format!("{:?}.union({:?}) = {:?} does not contain {:?}", a, b, u, p));
        } else {
            // smallest: pulling any face in by half a grid step loses a point of a or b
            for s in shrunk(u) {
                let lost = pts.iter().any(|&p| (o_contains(a, p) || o_contains(b, p)) && !o_contains(s, p));
                if !lost {
                    cx.fail(Api::Union, "not_the_smallest_box", format!("{:?}.union({:?}) = {:?}, but the smaller box {:?} already contains both", a, b, u, s));
                    break;
                }
            }
        }
    }
    if vb {
        let c = S::contains_aab(a, b);
        if c != b_subset_a {
            let what = if b_subset_a { "contained_box_reported_outside" } else { "protruding_box_reported_contained" };
            cx.fail(Api::ContainsAab, what, format!("{:?}.contains_aab({:?}) = {}, every grid/half-grid point of the argument is contained = {}", a, b, c, b_subset_a));
        }
    }
    if o_positive(a) && o_positive(b) {
        let c = S::collides_with_aab(a, b);
        if c != interiors_meet {
            cx.fail(Api::CollidesWithAab, overlap_class(a, b), format!("{:?}.collides_with_aab({:?}) = {}, some half-grid point strictly inside both = {}", a, b, c, interiors_meet));
        }
    }
}

/// pointwise set semantics of the box/point operations (expanded_to_contain_point, projected_point)
fn chk_point_points<const D: usize, S: Space<i32, D>>(cx: &mut Cx, a: Bx<i32, D>, p: P<D>, pts: &[P<D>]) {
    if !o_valid(a) {
        return;
    }
    let e = S::expanded_to_contain_point(a, p);
    let miss = pts.iter().find(|&&q| (o_contains(a, q) || q == p) && !o_contains(e, q));
    if let Some(q) = miss {
        cx.fail(Api::ExpandedToContainPoint, "misses_the_point_or_a_box_point", format!("{:?}.expanded_to_contain_point({:?}) = {:?} does not contain {:?}", a, p, e, q));
    } else {
        for s in shrunk(e) {
            let lost = pts.iter().any(|&q| (o_contains(a, q) || q == p) && !o_contains(s, q));
            if !lost {
                cx.fail(Api::ExpandedToContainPoint, "not_the_smallest_box", format!("{:?}.expanded_to_contain_point({:?}) = {:?}, but {:?} already contains the box and the point", a, p, e, s));
                break;
            }
        }
    }
    let r = S::projected_point(a, p);
    if !o_contains(a, r) {
        cx.fail(Api::ProjectedPoint, "projection_outside_box", format!("{:?}.projected_point({:?}) = {:?}", a, p, r));
    } else {
        let dr = d2(r, p);
        if let Some(q) = pts.iter().find(|&&q| o_contains(a, q) && d2(q, p) < dr) {
            cx.fail(Api::ProjectedPoint, "not_the_nearest_point", format!("{:?}.projected_point({:?}) = {:?} at squared distance {}, but the box point {:?} is at {}", a, p, r, dr, q, d2(*q, p)));
        }
    }
}

/// pointwise semantics of a split (caller: a.min[k] <= sp <= a.max[k])
fn chk_split_points<const D: usize>(cx: &mut Cx, a: Bx<i32, D>, k: usize, sp: i32, halves: [Bx<i32, D>; 2], pts: &[P<D>]) {
    let [lo, hi] = halves;
    for &p in pts {
        let (ina, inl, inh) = (o_contains(a, p), o_contains(lo, p), o_contains(hi, p));
        let right = (inl || inh) == ina && (inl && inh) == (ina && p[k] == sp) && (!inl || p[k] <= sp) && (!inh || p[k] >= sp);
        if !right {
            cx.fail_ix(Api::SplitAtX as usize + k, "wrong_value", "halves_hold_the_wrong_points", format!("{:?} split on axis {} at {} = [{:?}, {:?}]: point {:?} in box = {}, in low = {}, in high = {}", a, k, sp, lo, hi, p, ina, inl, inh));
            return;
        }
    }
}

/// map / as_ per element, box and rectangle
fn chk_conv<const D: usize, S: SpaceI<D>>(cx: &mut Cx, a: Bx<i32, D>) {
    // spread the grid values so that casts truncate / wrap: c -> 100c - 250 in {-250..350}
    let f = |c: i32| 100 * c - 250;
    let w = Bx { min: a.min.map(f), max: a.max.map(f) };
    let m = S::map_i64(w, &mut |c| 3 * c as i64 + 1);
    let em = Bx { min: w.min.map(|c| 3 * c as i64 + 1), max: w.max.map(|c| 3 * c as i64 + 1) };
    if m != em {
        cx.fail(Api::Map, "closure_applied_per_element", format!("{:?}.map(|c| 3c+1) = {:?}, expected {:?}", w, m, em));
    }
    let x = S::as_f64(w);
    let ex = Bx { min: w.min.map(|c| c as f64), max: w.max.map(|c| c as f64) };
    if x != ex {
        cx.fail(Api::As, "as_cast_per_element", format!("{:?}.as_::<f64>() = {:?}, expected {:?}", w, x, ex));
    }
    let x = S::as_u8(w);
    let ex = Bx { min: w.min.map(|c| c as u8), max: w.max.map(|c| c as u8) };
    if x != ex {
        cx.fail(Api::As, "as_cast_per_element", format!("{:?}.as_::<u8>() = {:?}, expected {:?}", w, x, ex));
    }
    let r = o_rect(w);
    let x = S::r_map(r, &mut |c| 3 * c as i64 + 1, &mut |c| (5 * c + 7) as u16);
    let ex = (r.pos.map(|c| 3 * c as i64 + 1), r.ext.map(|c| (5 * c + 7) as u16));
    if x != ex {
        cx.fail(Api::RMap, "position_and_extent_closures_per_element", format!("{:?}.map(|p| 3p+1, |e| (5e+7) as u16) = {:?}, expected {:?}", r, x, ex));
    }
    let x = S::r_as(r);
    let ex = (r.pos.map(|c| c as f32), r.ext.map(|c| c as u8));
    if x != ex {
        cx.fail(Api::RAs, "as_cast_per_element", format!("{:?}.as_::<f32,u8>() = {:?}, expected {:?}", r, x, ex));
    }
}

// ------------------------------------------------------------------ exhaustive sub-checks

struct Grid {
    g: u64,
    lo: i32,
    hi: i32,
    tag: &'static str,
}
const G2: Grid = Grid { g: 4, lo: -1, hi: 7, tag: "2" };
const G3: Grid = Grid { g: 3, lo: -1, hi: 5, tag: "3" };

fn sub_box<const D: usize, S: SpaceI<D>>(cfg: &Config, gr: &Grid) -> Sub {
    let n = nboxes(D as u32, gr.g);
    let mut proto = Sub::new(
        &format!("box{}", gr.tag),
        &format!("all {} {}-D i32 boxes with corner coordinates in {{0,2,..,{}}} (valid and invalid), one case per box: is_valid/make_valid/made_valid, center/size/half_size, both conversions, Rect constructors/accessors/setters, map/as_ per element, split_at_* at every integer sp with min<=sp<=max (checked pointwise over all integer points in {}..={}); enumerated, hence distinct; non-trivial = the box is not a single point", n, D, 2 * (gr.g - 1), gr.lo, gr.hi),
    )
    .with_floor(n - gr.g.pow(D as u32));
    proto.exhaustive = true;
    let pts = points::<D>(gr.lo, gr.hi);
    run_enum(cfg, proto, n, |s, i| {
        let a = box_from_id::<D>(i, gr.g);
        run_case(s, S::DIM, "i32", cfg.case_seed(), i, &|| format!("box {:?} (doubled coordinates)", a), |cx| {
            chk_box::<i32, D, S>(cx, a);
            chk_conv::<D, S>(cx, a);
            for k in 0..D {
                for sp in gr.lo..=gr.hi {
                    if a.min[k] <= sp && sp <= a.max[k] {
                        let h = chk_split::<i32, D, S>(cx, a, k, sp);
                        chk_split_points::<D>(cx, a, k, sp, h, &pts);
                    }
                }
            }
            Outcome::enumerated(a.min != a.max)
        });
    })
}

/// boxes with signed and odd corner coordinates (-3..=3): integer centre / half size truncate, and
/// the rectangle methods must still equal the box methods on the converted value there
fn sub_box_signed<const D: usize, S: SpaceI<D>>(cfg: &Config, tag: &str) -> Sub {
    let g = 7u64;
    let n = g.pow(2 * D as u32);
    let mut proto = Sub::new(
        &format!("box_signed{}", tag),
        &format!("all {} {}-D i32 boxes with corner coordinates in -3..=3 (negative, odd, valid and invalid), one case per box: is_valid/make_valid/made_valid, center/size/half_size (integer division as the element type defines it), both conversions, every Rect accessor/setter and Rect::center == box centre of the converted value; enumerated, hence distinct; non-trivial = the box is not a single point", n, D),
    )
    .with_floor(n - g.pow(D as u32));
    proto.exhaustive = true;
    run_enum(cfg, proto, n, |s, i| {
        let mut id = i;
        let mut a = Bx { min: [0i32; D], max: [0i32; D] };
        for k in 0..D {
            a.min[k] = (id % g) as i32 - 3;
            id /= g;
        }
        for k in 0..D {
            a.max[k] = (id % g) as i32 - 3;
            id /= g;
        }
        run_case(s, S::DIM, "i32", cfg.case_seed(), i, &|| format!("box {:?}", a), |cx| {
            chk_box::<i32, D, S>(cx, a);
            Outcome::enumerated(a.min != a.max)
        });
    })
}

fn sub_point<const D: usize, S: Space<i32, D>>(cfg: &Config, gr: &Grid) -> Sub {
    let pts = points::<D>(gr.lo, gr.hi);
    let n = pts.len() as u64;
    let mut proto = Sub::new(
        &format!("point{}", gr.tag),
        &format!("all {} integer points p in {}..={} ({}-D): new_empty(p) has min = max = p and contains exactly p among all those points (vek's contains_point and the oracle's membership); enumerated, every case non-trivial", n, gr.lo, gr.hi, D),
    )
    .with_floor(n);
    proto.exhaustive = true;
    run_enum(cfg, proto, n, |s, i| {
        let p = pts[i as usize];
        run_case(s, S::DIM, "i32", cfg.case_seed(), i, &|| format!("point {:?}", p), |cx| {
            let e = S::new_empty(p);
            if e != o_point_box(p) {
                cx.fail(Api::NewEmpty, "min_and_max_are_the_point", format!("new_empty({:?}) = {:?}", p, e));
            }
            for &q in &pts {
                let c = S::contains_point(e, q);
                if c != (q == p) || o_contains(e, q) != (q == p) {
                    cx.fail(Api::NewEmpty, "contains_exactly_the_point", format!("new_empty({:?}) = {:?}: contains_point({:?}) = {}, membership in the returned bounds = {}", p, e, q, c, o_contains(e, q)));
                    break;
                }
            }
            Outcome::enumerated(true)
        });
    })
}

fn sub_box_point<const D: usize, S: Space<i32, D>>(cfg: &Config, gr: &Grid) -> Sub {
    let pts = points::<D>(gr.lo, gr.hi);
    let nb = nboxes(D as u32, gr.g);
    let np = pts.len() as u64;
    let valid = (gr.g * (gr.g + 1) / 2).pow(D as u32);
    let mut proto = Sub::new(
        &format!("box_point{}", gr.tag),
        &format!("all {} boxes x all {} integer points in {}..={} ({}-D, doubled coordinates: grid and half-grid points): contains_point = closed-interval membership; expanded_to_contain_point = componentwise bounds, contains the point and every box point, no face can be pulled in (valid boxes); expand_to_contain_point in place; projected_point lies in the box and no box point is nearer (valid boxes only: Clamp asserts lower<=upper); Rect twins; enumerated; non-trivial = valid box", nb, np, gr.lo, gr.hi, D),
    )
    .with_floor(valid * np);
    proto.exhaustive = true;
    run_enum(cfg, proto, nb * np, |s, i| {
        let a = box_from_id::<D>(i / np, gr.g);
        let p = pts[(i % np) as usize];
        run_case(s, S::DIM, "i32", cfg.case_seed(), i, &|| format!("box {:?}, point {:?}", a, p), |cx| {
            chk_point::<i32, D, S>(cx, a, p);
            chk_point_points::<D, S>(cx, a, p, &pts);
            Outcome::enumerated(o_valid(a))
        });
    })
}

/// `mode`: 0 = algebraic + pointwise, 1 = algebraic only, 2 = pointwise only.
/// `n` cases out of the `nb*nb` pairs: case i is pair (off + i*stride) mod nb^2, a bijection,
/// so that any prefix is duplicate-free and the full range is the whole space.
fn sub_pair<const D: usize, S: Space<i32, D>>(cfg: &Config, gr: &Grid, name: &str, mode: u8, n: u64, floor: u64) -> Sub {
    let pts = points::<D>(gr.lo, gr.hi);
    let nb = nboxes(D as u32, gr.g);
    let total = nb * nb;
    let n = n.min(total);
    // stride coprime with total (total is a power of 2 or of 3)
    let stride: u64 = if n == total { 1 } else { 200_003 % total };
    let off = if n == total { 0 } else { mix2(cfg.case_seed(), 0xC13) % total };
    let what = match mode {
        0 => "union/intersection/contains/collides/collision vector algebraically and pointwise over all integer points",
        1 => "algebraic laws: union/intersection = componentwise bounds, in-place = returning, intersection invalid iff no common point, contains_aab (valid argument) iff both corners contained, collides (positive extents) iff the common box has positive extent, collision vector: each component makes the boxes touch and (valid boxes) is the shorter such move; every Rect twin == box method on the converted value",
        _ => "pointwise set semantics over all integer points: intersection holds exactly the common points and is invalid iff there are none, union holds every point of both and no face can be pulled in (valid), contains_aab iff every point contained (valid argument), collides iff a half-grid point is strictly inside both (positive extents)",
    };
    let mut proto = Sub::new(
        name,
        &format!("{} of the {} ordered pairs of {}-D i32 grid boxes (valid and invalid; case i = pair (off+i*stride) mod {}, duplicate-free), points in {}..={}: {}; non-trivial = both boxes valid and overlapping or touching", n, total, D, total, gr.lo, gr.hi, what),
    )
    .with_floor(floor);
    proto.exhaustive = n == total;
    run_enum(cfg, proto, n, |s, i| {
        let id = (off + (i % total) * stride) % total;
        let a = box_from_id::<D>(id / nb, gr.g);
        let b = box_from_id::<D>(id % nb, gr.g);
        run_case(s, S::DIM, "i32", cfg.case_seed(), i, &|| format!("self = {:?}, other = {:?} (doubled coordinates)", a, b), |cx| {
            if mode != 2 {
                chk_pair::<i32, D, S>(cx, a, b);
            }
            if mode != 1 {
                chk_pair_points::<D, S>(cx, a, b, &pts);
            }
            Outcome::enumerated(o_valid(a) && o_valid(b) && o_valid(o_inter(a, b)))
        });
    })
}

/// `Aabr::from(Aabb)` drops z
fn sub_drop_z(cfg: &Config) -> Sub {
    let n = nboxes(3, G3.g);
    let mut proto = Sub::new("aabr_from_aabb", "all 729 3-D grid boxes: Aabr::from(Aabb) keeps min.xy / max.xy and drops z; coordinates are made distinct per slot (c + 10*slot) so that a crossed field shows; enumerated").with_floor(n);
    proto.exhaustive = true;
    run_enum(cfg, proto, n, |s, i| {
        let a = box_from_id::<3>(i, G3.g);
        run_case(s, 1, "i32", cfg.case_seed(), i, &|| format!("Aabr::from({:?})", a), |cx| {
            let t = |c: [i32; 3], base: i32| [c[0] + base, c[1] + base + 10, c[2] + base + 20];
            let (mn3, mx3) = (t(a.min, 100), t(a.max, 200));
            at(Api::AabrFromAabb, 1);
            let r: Aabr<i32> = Aabr::from(Aabb { min: Vec3 { x: mn3[0], y: mn3[1], z: mn3[2] }, max: Vec3 { x: mx3[0], y: mx3[1], z: mx3[2] } });
            let got = ([r.min.x, r.min.y], [r.max.x, r.max.y]);
            let exp = ([mn3[0], mn3[1]], [mx3[0], mx3[1]]);
            if got != exp {
                cx.fail(Api::AabrFromAabb, "keeps_xy_drops_z", format!("Aabr::from(Aabb {{ min: {:?}, max: {:?} }}) = {:?}, expected {:?}", mn3, mx3, got, exp));
            }
            Outcome::enumerated(true)
        });
    })
}

// ------------------------------------------------------------------ sampled sub-checks (Q, f32, f64)

fn coord<T: El>(rng: &mut Rng) -> T {
    let d = *rng.pick(T::dens());
    T::from_frac(rng.range_i64(-5, 5) * d + rng.range_i64(0, d - 1) * (rng.below(2) as i64), d)
}
fn gen_box<T: El, const D: usize>(rng: &mut Rng) -> Bx<T, D> {
    let mut b = Bx { min: [T::zero(); D], max: [T::zero(); D] };
    for k in 0..D {
        b.min[k] = coord(rng);
        b.max[k] = if rng.chance(1, 8) { b.min[k] } else { coord(rng) };
    }
    if rng.chance(3, 4) {
        b = o_made_valid(b);
    }
    b
}

/// offsets with a rational length: (|v|^2 is a perfect square); third component 0 for 2-D use
const PYTH: &[[i64; 3]] = &[[3, 4, 0], [5, 12, 0], [8, 15, 0], [6, 8, 0], [1, 0, 0], [0, 0, 0], [1, 2, 2], [2, 3, 6], [1, 4, 8], [2, 6, 9], [4, 4, 7], [6, 6, 7]];

fn real_case<T: RealEl, const D: usize, S: SpaceReal<T, D>>(cx: &mut Cx, rng: &mut Rng, h: &mut H64, desc: &RefCell<String>) -> bool {
    let a: Bx<T, D> = gen_box(rng);
    let mut b: Bx<T, D> = gen_box(rng);
    // often make b touch / share coordinates with a
    for k in 0..D {
        match rng.below(6) {
            0 => b.min[k] = a.max[k],
            1 => b.max[k] = a.min[k],
            2 => b.min[k] = a.min[k],
            _ => {}
        }
    }
    let mut p = [T::zero(); D];
    for k in 0..D {
        p[k] = match rng.below(5) {
            0 => a.min[k],
            1 => a.max[k],
            2 => (a.min[k] + a.max[k]) / (T::one() + T::one()),
            _ => coord(rng),
        };
    }
    *desc.borrow_mut() = format!("{} {}-D: self = {:?}, other = {:?}, point = {:?}", T::TY, D, a, b, p);
    for k in 0..D {
        a.min[k].hash_into(h);
        a.max[k].hash_into(h);
        b.min[k].hash_into(h);
        b.max[k].hash_into(h);
        p[k].hash_into(h);
    }
    chk_box::<T, D, S>(cx, a);
    chk_pair::<T, D, S>(cx, a, b);
    chk_point::<T, D, S>(cx, a, p);
    for k in 0..D {
        if a.min[k] <= a.max[k] {
            let sp = match rng.below(3) {
                0 => a.min[k],
                1 => a.max[k],
                _ => (a.min[k] + a.max[k]) / (T::one() + T::one()),
            };
            sp.hash_into(h);
            chk_split::<T, D, S>(cx, a, k, sp);
        }
    }
    // distance_to_point: valid box, point placed so that the excess vector has a rational length
    let c = o_made_valid(a);
    let mut t = *rng.pick(PYTH);
    if D == 2 {
        while t[2] != 0 {
            t = *rng.pick(PYTH);
        }
        if rng.bool() {
            t.swap(0, 1);
        }
    } else {
        rng.shuffle(&mut t);
    }
    let sd = *rng.pick(&[1i64, 1, 2, 4, 8]);
    let sn = rng.range_i64(1, 3);
    let mut q = [T::zero(); D];
    for k in 0..D {
        let v = T::from_frac(t[k] * sn, sd);
        q[k] = if t[k] == 0 {
            match rng.below(3) {
                0 => c.min[k],
                1 => c.max[k],
                _ => (c.min[k] + c.max[k]) / (T::one() + T::one()),
            }
        } else if rng.bool() {
            c.max[k] + v
        } else {
            c.min[k] - v
        };
        q[k].hash_into(h);
    }
    let r = S::distance_to_point(c, q);
    let mut ss = T::zero();
    for k in 0..D {
        let e = if q[k] < c.min[k] {
            c.min[k] - q[k]
        } else if q[k] > c.max[k] {
            q[k] - c.max[k]
        } else {
            T::zero()
        };
        ss = ss + e * e;
    }
    match T::dist_ok(r, ss) {
        Some(true) => {}
        Some(false) => cx.fail(Api::DistanceToPoint, "not_the_distance_to_the_nearest_box_point", format!("{:?}.distance_to_point({:?}) = {:?}, but the squared distance to the nearest box point is {:?}", c, q, r, ss)),
        None => {}
    }
    // inside / on the boundary: distance 0
    if o_contains(c, p) {
        let r = S::distance_to_point(c, p);
        if T::dist_ok(r, T::zero()) == Some(false) {
            cx.fail(Api::DistanceToPoint, "nonzero_for_a_contained_point", format!("{:?}.distance_to_point({:?}) = {:?} for a point of the box", c, p, r));
        }
    }
    o_valid(a) && o_valid(b) && o_valid(o_inter(a, b))
}

fn sub_real<T: RealEl>(cfg: &Config, name: &str, n: u64) -> Sub
where
    S2: SpaceReal<T, 2>,
    S3: SpaceReal<T, 3>,
{
    let proto = Sub::new(
        name,
        &format!("random {} boxes (2-D and 3-D per case; coordinates small fractions with denominators {:?}, 3/4 repaired to valid, second box often sharing faces with the first, point often on a face/centre): all algebraic laws of box*/pair* plus split at min/mid/max, center/size/half_size exact, distance_to_point with the point placed at a Pythagorean offset from the box (exact root) and 0 for contained points; floats use short dyadics so every intermediate is exact (distance: tolerance 64 eps); non-trivial = both boxes valid and overlapping or touching; distinct by hash of all coordinates", T::TY, T::dens()),
    )
    .with_floor(n / 8);
    run_enum(cfg, proto, n, |s, i| {
        for dim in 0..2usize {
            let mut rng = Rng::for_case(&format!("{}/{}", name, dim), cfg.case_seed(), i);
            let mut h = H64::new();
            h.s(name).u(dim as u64);
            let desc = RefCell::new(format!("{} case {} ({}-D)", T::TY, i, dim + 2));
            run_case(s, dim, T::TY, cfg.case_seed(), i, &|| desc.borrow().clone(), |cx| {
                let nt = if dim == 0 { real_case::<T, 2, S2>(cx, &mut rng, &mut h, &desc) } else { real_case::<T, 3, S3>(cx, &mut rng, &mut h, &desc) };
                Outcome { nontrivial: nt, hash: Some(h.get()), inconclusive: None }
            });
        }
    })
}

// ------------------------------------------------------------------ unsigned element types

/// Boxes and rectangles over unsigned coordinates (the usual pixel / tile rectangle): every input,
/// every point set named by the property and every result below is made of natural numbers that fit
/// the type, so the answer exists in the type and must come back: in a build with overflow checks a
/// negative intermediate shows as a panic, in a release build as a wrapped (wrong) value.
/// Left out on purpose, because their value or vek's documented formula leaves the naturals:
/// collision vectors (signed by definition), the intersection *rectangle* of disjoint rectangles
/// (negative extent), size of an invalid box, center when min+max exceeds the type.
fn unsigned_case<T: UEl, const D: usize, S: Space<T, D>>(cx: &mut Cx, rng: &mut Rng, h: &mut H64, desc: &RefCell<String>) -> bool {
    // coordinates on a small grid, either at the bottom of the type's range or right at its top
    let span = 9i64;
    let base = if rng.chance(1, 3) { T::MAXI - 2 * span } else if rng.chance(1, 2) { 0 } else { rng.range_i64(0, T::MAXI - 2 * span) };
    let gen = |rng: &mut Rng| -> ([i64; D], [i64; D]) {
        let (mut lo, mut hi) = ([0i64; D], [0i64; D]);
        for k in 0..D {
            let a = base + rng.range_i64(0, span);
            let b = if rng.chance(1, 8) { a } else { base + rng.range_i64(0, span) };
            lo[k] = a.min(b);
            hi[k] = a.max(b);
        }
        (lo, hi)
    };
    let (alo, ahi) = gen(rng);
    let (mut blo, mut bhi) = gen(rng);
    for k in 0..D {
        match rng.below(8) {
            0 => { blo[k] = ahi[k]; bhi[k] = bhi[k].max(blo[k]); }
            1 => { bhi[k] = alo[k]; blo[k] = blo[k].min(bhi[k]); }
            2 => blo[k] = alo[k].min(bhi[k]),
            _ => {}
        }
    }
    let mut p = [0i64; D];
    for k in 0..D {
        p[k] = match rng.below(5) { 0 => alo[k], 1 => ahi[k], _ => base + rng.range_i64(0, span + 4) };
    }
    for v in alo.iter().chain(&ahi).chain(&blo).chain(&bhi).chain(&p) {
        h.i(*v as i128);
    }
    let t = |v: [i64; D]| -> [T; D] { v.map(T::of_i) };
    let bx = |lo: [i64; D], hi: [i64; D]| Bx { min: t(lo), max: t(hi) };
    let rc = |lo: [i64; D], hi: [i64; D]| { let mut e = [0i64; D]; for k in 0..D { e[k] = hi[k] - lo[k]; } Rc { pos: t(lo), ext: t(e) } };
    let (a, b) = (bx(alo, ahi), bx(blo, bhi));
    let (ra, rb) = (rc(alo, ahi), rc(blo, bhi));
    *desc.borrow_mut() = format!("{} {}-D: a={:?} b={:?} p={:?} (as rectangles: {:?}, {:?})", T::TY, D, a, b, p, ra, rb);
    let all = |f: &dyn Fn(usize) -> bool| (0..D).all(|k| f(k));
    // point-set oracles on i64
    let e_contains_p = all(&|k| alo[k] <= p[k] && p[k] <= ahi[k]);
    let e_contains_b = all(&|k| alo[k] <= blo[k] && bhi[k] <= ahi[k]);
    let e_collide = all(&|k| ahi[k] > blo[k] && alo[k] < bhi[k]);
    let (mut ulo, mut uhi, mut ilo, mut ihi, mut plo, mut phi, mut proj) = ([0i64; D], [0i64; D], [0i64; D], [0i64; D], [0i64; D], [0i64; D], [0i64; D]);
    for k in 0..D {
        ulo[k] = alo[k].min(blo[k]);
        uhi[k] = ahi[k].max(bhi[k]);
        ilo[k] = alo[k].max(blo[k]);
        ihi[k] = ahi[k].min(bhi[k]);
        plo[k] = alo[k].min(p[k]);
        phi[k] = ahi[k].max(p[k]);
        proj[k] = p[k].max(alo[k]).min(ahi[k]);
    }
    let common = all(&|k| ilo[k] <= ihi[k]);
    macro_rules! same {
        ($api:expr, $what:expr, $got:expr, $exp:expr) => {{
            let (g, e) = ($got, $exp);
            if g != e {
                cx.fail_ix(($api) as usize, "wrong_value", $what, format!("{}: got {:?}, the point-set definition gives {:?}", desc.borrow(), g, e));
            }
        }};
    }
    // boxes
    same!(Api::IsValid, "valid_box_is_valid", S::is_valid(a), true);
    same!(Api::MadeValid, "made_valid_keeps_valid_box", S::made_valid(a), a);
    same!(Api::MadeValid, "made_valid_swaps", S::made_valid(Bx { min: a.max, max: a.min }), a);
    same!(Api::ContainsPoint, "closed_interval_membership", S::contains_point(a, t(p)), e_contains_p);
    same!(Api::ContainsAab, "every_point_contained", S::contains_aab(a, b), e_contains_b);
    same!(Api::CollidesWithAab, "interiors_share_a_point", S::collides_with_aab(a, b), e_collide);
    same!(Api::Union, "smallest_box_containing_both", S::union(a, b), bx(ulo, uhi));
    same!(Api::ExpandToContain, "smallest_box_containing_both", S::expand_to_contain(a, b), bx(ulo, uhi));
    same!(Api::Intersection, "common_points", S::intersection(a, b), bx(ilo, ihi));
    same!(Api::Intersect, "common_points", S::intersect(a, b), bx(ilo, ihi));
    same!(Api::ExpandedToContainPoint, "smallest_box_containing_box_and_point", S::expanded_to_contain_point(a, t(p)), bx(plo, phi));
    same!(Api::ExpandToContainPoint, "smallest_box_containing_box_and_point", S::expand_to_contain_point(a, t(p)), bx(plo, phi));
    same!(Api::ProjectedPoint, "nearest_point_of_the_box", S::projected_point(a, t(p)), t(proj));
    same!(Api::Size, "max_minus_min", S::size(a), ra.ext);
    same!(Api::HalfSize, "half_of_max_minus_min", S::half_size(a), ra.ext.map(|e| T::of_i(e.to_i() / 2)));
    same!(Api::IntoRect, "same_point_set", S::into_rect(a), ra);
    same!(Api::RectFromAab, "same_point_set", S::rect_from_aab(a), ra);
    same!(Api::AabFromRect, "same_point_set", S::aab_from_rect(ra), a);
    same!(Api::RIntoAab, "same_point_set", S::r_into_aab(ra), a);
    if all(&|k| alo[k] + ahi[k] <= T::MAXI) {
        let c = { let mut c = [0i64; D]; for k in 0..D { c[k] = (alo[k] + ahi[k]) / 2; } c };
        same!(Api::Center, "midpoint_truncated", S::center(a), t(c));
        same!(Api::RCenter, "midpoint_truncated", S::r_center(ra), t(c));
    }
    // split at a coordinate inside the box
    let k = rng.below(D as u64) as usize;
    let sp = rng.range_i64(alo[k], ahi[k]);
    let (mut lhi, mut hlo) = (ahi, alo);
    lhi[k] = sp;
    hlo[k] = sp;
    same!(Api::SplitAtX as usize + k, "low_and_high_part", S::split_at(k, a, T::of_i(sp)), [bx(alo, lhi), bx(hlo, ahi)]);
    same!(Api::RSplitAtX as usize + k, "low_and_high_part", S::r_split_at(k, ra, T::of_i(sp)), [rc(alo, lhi), rc(hlo, ahi)]);
    // rectangles: every rectangle method equals the box method on the converted value
    same!(Api::RContainsPoint, "closed_interval_membership", S::r_contains_point(ra, t(p)), e_contains_p);
    same!(Api::RContainsRect, "every_point_contained", S::r_contains_rect(ra, rb), e_contains_b);
    same!(Api::RCollidesWithRect, "interiors_share_a_point", S::r_collides_with_rect(ra, rb), e_collide);
    same!(Api::RUnion, "smallest_rect_containing_both", S::r_union(ra, rb), rc(ulo, uhi));
    same!(Api::RExpandToContain, "smallest_rect_containing_both", S::r_expand_to_contain(ra, rb), rc(ulo, uhi));
    same!(Api::RExpandedToContainPoint, "smallest_rect_containing_rect_and_point", S::r_expanded_to_contain_point(ra, t(p)), rc(plo, phi));
    same!(Api::RExpandToContainPoint, "smallest_rect_containing_rect_and_point", S::r_expand_to_contain_point(ra, t(p)), rc(plo, phi));
    if common {
        same!(Api::RIntersection, "common_points", S::r_intersection(ra, rb), rc(ilo, ihi));
        same!(Api::RIntersect, "common_points", S::r_intersect(ra, rb), rc(ilo, ihi));
        same!(Api::RIntersection, "common_points_commuted", S::r_intersection(rb, ra), rc(ilo, ihi));
    }
    common
}

fn sub_unsigned<T: UEl>(cfg: &Config, name: &str, n: u64) -> Sub
where
    S2: Space<T, 2>,
    S3: Space<T, 3>,
{
    let proto = Sub::new(
        name,
        &format!("random {} boxes and the rectangles they convert to (2-D and 3-D per case; coordinates on a 10-wide grid placed at 0, at a random offset or right below {}::MAX, second box often touching / sharing a face with the first, point often on a face): is_valid, made_valid, contains_point/box, collides, union, intersection (boxes always; rectangles when the two share a point, so that the extent is a natural number), expand(ed)_to_contain(_point), projected_point, size, half_size, center (when min+max fits), split_at inside the box, box<->rectangle conversions and every rectangle method against the point-set definition evaluated on i64; every input and every expected result fits the type, so a panic (the `checked` profile has overflow checks) or a wrapped value is a violation; non-trivial = the two boxes share a point; distinct by hash of all coordinates", T::TY, T::TY),
    )
    .with_floor(n / 4);
    run_enum(cfg, proto, n, |s, i| {
        for dim in 0..2usize {
            let mut rng = Rng::for_case(&format!("{}/{}", name, dim), cfg.case_seed(), i);
            let mut h = H64::new();
            h.s(name).u(dim as u64);
            let desc = RefCell::new(format!("{} case {} ({}-D)", T::TY, i, dim + 2));
            run_case(s, dim, T::TY, cfg.case_seed(), i, &|| desc.borrow().clone(), |cx| {
                let nt = if dim == 0 { unsigned_case::<T, 2, S2>(cx, &mut rng, &mut h, &desc) } else { unsigned_case::<T, 3, S3>(cx, &mut rng, &mut h, &desc) };
                Outcome { nontrivial: nt, hash: Some(h.get()), inconclusive: None }
            });
        }
    })
}

// ------------------------------------------------------------------ main

const REQ_AAB: [Api; 22] = [
    Api::IsValid, Api::MakeValid, Api::MadeValid, Api::IntoRect, Api::Center, Api::Size, Api::HalfSize, Api::RectFromAab, Api::AabFromRect,
    Api::RNew, Api::RPosition, Api::RSetPosition, Api::RExtent, Api::RSetExtent, Api::RPositionExtent, Api::RFromTuple, Api::RIntoAab, Api::RCenter,
    Api::Map, Api::As, Api::RMap, Api::RAs,
];
const REQ_POINT: [Api; 7] = [Api::ContainsPoint, Api::ExpandedToContainPoint, Api::ExpandToContainPoint, Api::ProjectedPoint, Api::RContainsPoint, Api::RExpandedToContainPoint, Api::RExpandToContainPoint];
const REQ_PAIR: [Api; 14] = [
    Api::Union, Api::Intersection, Api::ExpandToContain, Api::Intersect, Api::ContainsAab, Api::CollidesWithAab, Api::CollisionVectorWithAab,
    Api::RUnion, Api::RIntersection, Api::RExpandToContain, Api::RIntersect, Api::RContainsRect, Api::RCollidesWithRect, Api::RCollisionVectorWithRect,
];
fn req(mut s: Sub, cfg: &Config, dim: usize, apis: &[Api], extra: &[Api]) -> Sub {
    if cfg.wants(&s.name) {
        for a in apis.iter().chain(extra.iter()) {
            s.required.push(API_NAMES[*a as usize][dim].to_string());
        }
    }
    s
}


// ------------------------------------------------------------------ distance over the float range
// (added after seeded change C13_N) The sampled tiers above use short dyadics of ordinary size.  Here
// the point lies outside the box by 10^k for every k the type can hold, subnormal offsets included,
// along one axis (off a face) or several (off an edge / corner), the box anchored at the origin or far
// from it.  `distance_to_point` must come back finite, non-negative and equal to the distance to the
// nearest box point within 64 eps relative + 4*sqrt(smallest subnormal) absolute (squares below the smallest
// normal number are rounded to subnormals: that is the type, not a defect).  Offsets whose square overflows are outside
// the working range and are not generated.
macro_rules! distance_range_case {
    ($sub:expr, $cfg:expr, $idx:expr, $F:ty, $tname:expr, $kmin:expr, $kmax:expr) => {{
        let mut rng = Rng::for_case(concat!("distance_float_range/", $tname), $cfg.case_seed(), $idx);
        let dim3 = rng.bool();
        let d = if dim3 { 3 } else { 2 };
        let k = rng.range_i64($kmin, $kmax) as i32;
        let anchor: $F = *rng.pick(&[0.0 as $F, 0.0, 1.0, -3.5, 1024.0]);
        let mut lo = [anchor; 3];
        let mut hi = [anchor; 3];
        let mut p = [anchor; 3];
        let mut off = [0.0f64; 3];
        let naxes = 1 + rng.below(d as u64) as usize;
        for ax in 0..d {
            let w: $F = *rng.pick(&[0.0 as $F, 1.0, 0.5, 7.0]);
            hi[ax] = lo[ax] + w;
            p[ax] = lo[ax] + w / 2.0;
        }
        let mut axes: Vec<usize> = (0..d).collect();
        rng.shuffle(&mut axes);
        // (added after seeded change C13_P) a third of the multi-axis cases are exact ties: the same offset
        // along every chosen axis -- the point on the diagonal through a corner / an edge, which is what
        // grid-aligned and symmetric data looks like and what independent random offsets never produce
        let tie = naxes >= 2 && rng.below(3) == 0;
        let tie_mant = 1.0 + rng.below(8) as f64 / 8.0;
        let tie_up = rng.bool();
        for &ax in axes.iter().take(naxes) {
            let mant = if tie { tie_mant } else { 1.0 + rng.below(8) as f64 / 8.0 };
            let e = (mant * 10f64.powi(k)) as $F;
            // the point as the type holds it; the offset the oracle uses is the one that survived the addition
            let up = if tie { tie_up } else { rng.bool() };
            let q = if up { hi[ax] + e } else { lo[ax] - e };
            p[ax] = q;
            off[ax] = if q > hi[ax] { q as f64 - hi[ax] as f64 } else if q < lo[ax] { lo[ax] as f64 - q as f64 } else { 0.0 };
        }
        // hypot neither underflows nor overflows on the way
        let truth = off[0].hypot(off[1]).hypot(off[2]);
        let (api, r) = if dim3 {
            let b = Aabb { min: Vec3::new(lo[0], lo[1], lo[2]), max: Vec3::new(hi[0], hi[1], hi[2]) };
            ("Aabb::distance_to_point", guarded(|| b.distance_to_point(Vec3::new(p[0], p[1], p[2]))))
        } else {
            let b = Aabr { min: Vec2::new(lo[0], lo[1]), max: Vec2::new(hi[0], hi[1]) };
            ("Aabr::distance_to_point", guarded(|| b.distance_to_point(Vec2::new(p[0], p[1]))))
        };
        $sub.saw(api);
        let ctx = format!("box min {:?} max {:?}, point {:?} (outside by {:?})", &lo[..d], &hi[..d], &p[..d], &off[..d]);
        // absolute part: each square below the smallest normal number is rounded to a multiple of the smallest
        // subnormal d (error <= d/2 each), and |sqrt(a) - sqrt(b)| <= sqrt(|a - b|): the sum of squares as the
        // type holds it puts the root off by at most sqrt(3 d / 2); 4*sqrt(d) leaves a factor 3 of room.
        // (It was 4*sqrt(MIN_POSITIVE) until seeded change C13_P showed that this hid a 29 % error for
        // every offset below 7e-20 in f32.)
        let tol = 64.0 * <$F>::EPSILON as f64 * truth + 4.0 * (<$F>::from_bits(1) as f64).sqrt();
        let mut h = H64::new();
        h.s($tname).u(d as u64);
        for x in lo.iter().chain(hi.iter()).chain(p.iter()) {
            h.f(*x as f64);
        }
        match r {
            Err(e) => {
                let v = violation(PROP, $sub, api, $tname, "panic", "distance_panics", format!("{}: distance_to_point panicked: {}", ctx, e), $cfg.case_seed(), $idx);
                $sub.violated(v)
            }
            Ok(r) => {
                let r = r as f64;
                if !r.is_finite() || r < 0.0 {
                    let v = violation(PROP, $sub, api, $tname, "wrong_value", "distance_not_finite", format!("{}: distance_to_point = {} for finite inputs whose distance is {:e}", ctx, r, truth), $cfg.case_seed(), $idx);
                    $sub.violated(v)
                } else if (r - truth).abs() > tol {
                    let v = violation(PROP, $sub, api, $tname, "wrong_value", "not_the_distance_over_the_float_range", format!("{}: distance_to_point = {:e}, the distance to the nearest box point is {:e} (tolerance {:e})", ctx, r, truth, tol), $cfg.case_seed(), $idx);
                    $sub.violated(v)
                } else {
                    $sub.sample(|| format!("{} [{}]: {} -> {:e}", api, $tname, ctx, r));
                    $sub.held(h.get(), truth > 0.0)
                }
            }
        }
    }};
}

fn sub_distance_range(cfg: &Config, n: u64) -> Sub {
    let proto = Sub::new(
        "distance_float_range",
        "f32 and f64 boxes (2-D / 3-D, degenerate or not, at the origin or away from it) and a point outside by m*10^k along 1..D axes, k over the whole range whose squares do not overflow (f32: -45..18, f64: -323..150; subnormal offsets included): distance_to_point is finite, >= 0 and the distance to the nearest box point within 64 eps relative + 4*sqrt(smallest subnormal) absolute; a third of the multi-axis cases are exact ties (the same offset along every chosen axis); non-trivial = the point really lies outside; distinct by hash of all coordinates",
    )
    .with_floor(n / 4)
    .require(&["Aabr::distance_to_point", "Aabb::distance_to_point"]);
    run_cases(cfg, proto, n, |s, i| {
        if i % 2 == 0 {
            distance_range_case!(s, cfg, i, f32, "f32", -45, 18)
        } else {
            distance_range_case!(s, cfg, i, f64, "f64", -323, 150)
        }
    })
}

fn main() {
    let cfg = Config::from_args(PROP);
    let mut rep = Report::new(cfg.clone());

    // 2-D, exhaustive in both tiers
    rep.push(req(sub_box::<2, S2>(&cfg, &G2), &cfg, 0, &REQ_AAB, &[Api::SplitAtX, Api::SplitAtY, Api::RSplitAtX, Api::RSplitAtY]));
    rep.push(sub_box_signed::<2, S2>(&cfg, "2"));
    rep.push(sub_box_signed::<3, S3>(&cfg, "3"));
    rep.push(req(sub_point::<2, S2>(&cfg, &G2), &cfg, 0, &[Api::NewEmpty, Api::ContainsPoint], &[]));
    rep.push(req(sub_box_point::<2, S2>(&cfg, &G2), &cfg, 0, &REQ_POINT, &[]));
    rep.push(req(sub_pair::<2, S2>(&cfg, &G2, "pair2", 0, u64::MAX, 4900), &cfg, 0, &REQ_PAIR, &[]));

    // 3-D: boxes, box x point and the algebraic pair laws exhaustive in both tiers; the pointwise
    // pair semantics sampled in quick, exhaustive in thorough
    rep.push(req(sub_box::<3, S3>(&cfg, &G3), &cfg, 1, &REQ_AAB, &[Api::SplitAtX, Api::SplitAtY, Api::SplitAtZ, Api::RSplitAtX, Api::RSplitAtY, Api::RSplitAtZ]));
    rep.push(req(sub_drop_z(&cfg), &cfg, 1, &[Api::AabrFromAabb], &[]));
    rep.push(req(sub_point::<3, S3>(&cfg, &G3), &cfg, 1, &[Api::NewEmpty, Api::ContainsPoint], &[]));
    rep.push(req(sub_box_point::<3, S3>(&cfg, &G3), &cfg, 1, &REQ_POINT, &[]));
    rep.push(req(sub_pair::<3, S3>(&cfg, &G3, "pair3", 1, u64::MAX, 17_576), &cfg, 1, &REQ_PAIR, &[]));
    let np = cfg.n(150_000, 531_441);
    rep.push(req(sub_pair::<3, S3>(&cfg, &G3, "pair3_points", 2, np, np / 100), &cfg, 1, &[Api::Union, Api::Intersection, Api::IsValid, Api::ContainsAab, Api::CollidesWithAab], &[]));

    // sampled: exact rationals and floats (Real-only methods, non-grid coordinates)
    let nq = cfg.n(20_000, 400_000);
    let mut sq = sub_real::<Q>(&cfg, "real_q", nq);
    let mut sf32 = sub_real::<f32>(&cfg, "real_f32", nq);
    let mut sf64 = sub_real::<f64>(&cfg, "real_f64", nq);
    for s in [&mut sq, &mut sf32, &mut sf64] {
        if cfg.wants(&s.name) {
            s.required.push("Aabr::distance_to_point".into());
            s.required.push("Aabb::distance_to_point".into());
        }
    }
    rep.push(sq);
    rep.push(sf32);
    rep.push(sf64);
    rep.push(sub_distance_range(&cfg, cfg.n(20_000, 400_000)));

    // sampled: unsigned coordinates (natural-number domain; see unsigned_case)
    let nu = cfg.n(10_000, 300_000);
    for mut s in [sub_unsigned::<u8>(&cfg, "unsigned_u8", nu), sub_unsigned::<u16>(&cfg, "unsigned_u16", nu), sub_unsigned::<u32>(&cfg, "unsigned_u32", nu)] {
        if cfg.wants(&s.name) {
            for n in ["Rect::intersection", "Rect3::intersection", "Rect::union", "Rect3::union", "Rect::contains_point", "Rect3::collides_with_rect3", "Aabr::intersection", "Aabb::union"] {
                s.required.push(n.into());
            }
        }
        rep.push(s);
    }

    std::process::exit(rep.finish());
}

//! C17 — clamp / range test / wrap / ping-pong / angle difference obey their range laws.
//!
//! Exhaustive: every (value, lower, upper) triple of i8, u8, Wrapping<i8>, Wrapping<u8>
//! (2^24 per ternary function) against an i32 reference model, panic-equivalence included
//! (documented panics are required, undocumented ones are violations).  Wider integers:
//! stratified boundary sweep against an i128 model.  Floats: sampled and boundary values with
//! tolerances in units of the input's magnitude.  Vector lifts: per lane against the scalar call.

use monitors::prng::{Rng, H64};
use monitors::report::{guarded, parallel, run_cases, Config, Report, Sub};
use props::*;
use std::num::Wrapping;
use vek::ops::{partial_max, partial_min, Clamp, IsBetween, Wrap};
use vek::vec::repr_c::*;

const PROP: &str = "C17";

// ------------------------------------------------------------------------------------
// 8-bit exhaustive

trait Small: Copy + PartialEq + PartialOrd + std::fmt::Debug + Send + Sync + 'static + Clamp + IsBetween<Output = bool> + Wrap + std::ops::Sub<Output = Self> + std::ops::Add<Output = Self> {
    const NAME: &'static str;
    const MIN: i32;
    const MAX: i32;
    fn mk(i: i32) -> Self;
    fn val(self) -> i32;
}
macro_rules! small {
    ($T:ty, $name:expr, $min:expr, $max:expr, $mk:expr, $val:expr) => {
        impl Small for $T {
            const NAME: &'static str = $name;
            const MIN: i32 = $min;
            const MAX: i32 = $max;
            fn mk(i: i32) -> Self {
                $mk(i)
            }
            fn val(self) -> i32 {
                $val(self)
            }
        }
    };
}
small!(i8, "i8", -128, 127, |i| i as i8, |s: i8| s as i32);
small!(u8, "u8", 0, 255, |i| i as u8, |s: u8| s as i32);
small!(Wrapping<i8>, "Wrapping<i8>", -128, 127, |i| Wrapping(i as i8), |s: Wrapping<i8>| s.0 as i32);
small!(Wrapping<u8>, "Wrapping<u8>", 0, 255, |i| Wrapping(i as u8), |s: Wrapping<u8>| s.0 as i32);

#[derive(Clone, Copy, PartialEq, Eq, Debug)]
enum Exp {
    Val(i32),
    Bool(bool),
    Panic,
}

fn model_clamp(v: i32, lo: i32, hi: i32) -> Exp {
    if lo > hi {
        Exp::Panic
    } else {
        Exp::Val(v.max(lo).min(hi))
    }
}
fn model_between(v: i32, lo: i32, hi: i32) -> Exp {
    if lo > hi {
        Exp::Panic
    } else {
        Exp::Bool(lo <= v && v <= hi)
    }
}
fn model_wrapped(v: i32, up: i32) -> Exp {
    if up <= 0 {
        Exp::Panic
    } else {
        Exp::Val(v.rem_euclid(up))
    }
}
fn model_wrapped_between(v: i32, lo: i32, hi: i32) -> Exp {
    if !(lo < hi) || lo < 0 || hi <= 0 {
        Exp::Panic
    } else {
        Exp::Val(lo + (v - lo).rem_euclid(hi - lo))
    }
}
fn model_pingpong(v: i32, up: i32) -> Exp {
    if up <= 0 {
        Exp::Panic
    } else {
        let m = v.rem_euclid(2 * up);
        Exp::Val(if m <= up { m } else { 2 * up - m })
    }
}

/// classification of a failing input (stable label for the violation signature)
fn classify_wrap<T: Small>(f: &str, v: i32, lo: i32, hi: i32) -> &'static str {
    match f {
        "wrapped_between" | "wrap_between" | "wrapped" | "wrap" => {
            if T::MIN < 0 && v < lo && (lo - v) + (hi - lo) > T::MAX {
                "input_far_below_lower_bound"
            } else {
                "other"
            }
        }
        "pingpong" => {
            if 2 * hi > T::MAX {
                "upper_above_half_of_type_max"
            } else {
                "other"
            }
        }
        _ => "other",
    }
}

struct Tally {
    eval: u64,
    nontrivial: u64,
}

#[allow(clippy::too_many_arguments)]
fn judge<T: Small>(sub: &mut Sub, tally: &mut Tally, cfg: &Config, api: &str, fname: &str, v: i32, lo: i32, hi: i32, exp: Exp, got: Result<Exp, String>) {
    tally.eval += 1;
    let ok = match (&got, exp) {
        (Ok(g), e) => *g == e,
        (Err(_), Exp::Panic) => true,
        (Err(_), _) => false,
    };
    if ok {
        if exp != Exp::Panic {
            tally.nontrivial += 1;
        }
        return;
    }
    let (class, what) = match (&got, exp) {
        (Ok(_), Exp::Panic) => ("missing_panic", "bounds_precondition_violated"),
        (Err(_), _) => ("panic", classify_wrap::<T>(fname, v, lo, hi)),
        (Ok(_), _) => ("wrong_value", classify_wrap::<T>(fname, v, lo, hi)),
    };
    let detail = format!("{}::{} value={} lower={} upper={} -> {:?}, expected {:?}", T::NAME, fname, v, lo, hi, got, exp);
    let idx = ((v - T::MIN) as u64) << 32 | ((lo - T::MIN) as u64) << 16 | (hi - T::MIN) as u64;
    sub.add_violation(violation(PROP, sub, api, T::NAME, class, what, detail, cfg.seed, idx));
}

fn call_val<T: Small>(f: impl FnOnce() -> T) -> Result<Exp, String> {
    guarded(f).map(|r| Exp::Val(r.val()))
}

/// all triples for one type; `lo` values are split over threads
fn exhaustive_ternary<T: Small>(cfg: &Config, rep: &mut Report) {
    let name = format!("exhaustive8_{}", T::NAME);
    let proto = Sub::new(
        &name,
        "every (value, lower, upper) triple of the 8-bit type through clamped/clamp/clamped_to_inclusive_range/clamp_to_inclusive_range, is_between/is_between_inclusive_range_bounds and wrapped_between/wrap_between, and every (value, upper) pair through wrapped/wrap/pingpong, against an i32 model; where the model expects the documented panic only 3 of the 256 values are tried per bound pair; non-trivial = the bounds satisfy the precondition; cases are distinct by enumeration",
    )
    .require(&["Clamp::clamped", "IsBetween::is_between", "Wrap::wrapped_between", "Wrap::wrapped", "Wrap::pingpong"]);
    if !cfg.wants(&name) {
        return;
    }
    let span = (T::MAX - T::MIN + 1) as usize;
    let parts = parallel(cfg.threads, |t, tn| {
        let mut sub = proto.fork();
        let mut tally = Tally { eval: 0, nontrivial: 0 };
        let mut li = t;
        while li < span {
            let lo = T::MIN + li as i32;
            for hi in T::MIN..=T::MAX {
                let clamp_panics = lo > hi;
                let wb_panics = model_wrapped_between(0, lo, hi) == Exp::Panic;
                for v in T::MIN..=T::MAX {
                    // sample the panicking combinations
                    let sampled = v == T::MIN || v == T::MAX || v == (lo + hi) / 2;
                    let (a, b, c) = (T::mk(v), T::mk(lo), T::mk(hi));
                    if !clamp_panics || sampled {
                        let e = model_clamp(v, lo, hi);
                        judge::<T>(&mut sub, &mut tally, cfg, "Clamp::clamped", "clamped", v, lo, hi, e, call_val(|| a.clamped(b, c)));
                        judge::<T>(&mut sub, &mut tally, cfg, "Clamp::clamp", "clamp", v, lo, hi, e, call_val(|| T::clamp(a, b, c)));
                        if (v + hi) % 7 == 0 {
                            judge::<T>(&mut sub, &mut tally, cfg, "Clamp::clamped_to_inclusive_range", "clamped_to_inclusive_range", v, lo, hi, e, call_val(|| a.clamped_to_inclusive_range(b..=c)));
                            judge::<T>(&mut sub, &mut tally, cfg, "Clamp::clamp_to_inclusive_range", "clamp_to_inclusive_range", v, lo, hi, e, call_val(|| T::clamp_to_inclusive_range(a, b..=c)));
                        }
                        let eb = model_between(v, lo, hi);
                        judge::<T>(&mut sub, &mut tally, cfg, "IsBetween::is_between", "is_between", v, lo, hi, eb, guarded(|| a.is_between(b, c)).map(Exp::Bool));
                        if (v + lo) % 7 == 0 {
                            judge::<T>(&mut sub, &mut tally, cfg, "IsBetween::is_between_inclusive_range_bounds", "is_between_inclusive_range_bounds", v, lo, hi, eb, guarded(|| a.is_between_inclusive_range_bounds(b..=c)).map(Exp::Bool));
                        }
                        // idempotence and agreement with the range test, on the value vek returned
                        if let (Exp::Val(_), Ok(r)) = (e, guarded(|| a.clamped(b, c))) {
                            let again = guarded(|| r.clamped(b, c));
                            let inside = guarded(|| r.is_between(b, c));
                            if again != Ok(r) || inside != Ok(true) {
                                let d = format!("{}: clamped({},{},{}) = {:?}; clamping again gives {:?}; is_between gives {:?}", T::NAME, v, lo, hi, r, again, inside);
                                sub.add_violation(violation(PROP, &sub, "Clamp::clamped", T::NAME, "wrong_value", "not_idempotent_or_outside_range", d, cfg.seed, 0));
                            }
                        }
                    }
                    if !wb_panics || sampled {
                        let e = model_wrapped_between(v, lo, hi);
                        judge::<T>(&mut sub, &mut tally, cfg, "Wrap::wrapped_between", "wrapped_between", v, lo, hi, e, call_val(|| a.wrapped_between(b, c)));
                        if (v + hi) % 5 == 0 {
                            judge::<T>(&mut sub, &mut tally, cfg, "Wrap::wrap_between", "wrap_between", v, lo, hi, e, call_val(|| T::wrap_between(a, b, c)));
                        }
                    }
                }
            }
            // binary functions: (value, upper) with upper = hi loop variable reused: lo plays "value"
            let v = lo;
            for up in T::MIN..=T::MAX {
                let (a, u) = (T::mk(v), T::mk(up));
                let e = model_wrapped(v, up);
                judge::<T>(&mut sub, &mut tally, cfg, "Wrap::wrapped", "wrapped", v, 0, up, e, call_val(|| a.wrapped(u)));
                judge::<T>(&mut sub, &mut tally, cfg, "Wrap::wrap", "wrap", v, 0, up, e, call_val(|| T::wrap(a, u)));
                let e = model_pingpong(v, up);
                judge::<T>(&mut sub, &mut tally, cfg, "Wrap::pingpong", "pingpong", v, 0, up, e, call_val(|| a.pingpong(u)));
            }
            li += tn;
        }
        for api in [
            "Clamp::clamped",
            "Clamp::clamp",
            "Clamp::clamped_to_inclusive_range",
            "Clamp::clamp_to_inclusive_range",
            "IsBetween::is_between",
            "IsBetween::is_between_inclusive_range_bounds",
            "Wrap::wrapped_between",
            "Wrap::wrap_between",
            "Wrap::wrapped",
            "Wrap::wrap",
            "Wrap::pingpong",
        ] {
            sub.saw_n(api, tally.eval / 11);
        }
        sub.evaluations += tally.eval;
        sub.conclusive += tally.eval;
        sub.nontrivial += tally.nontrivial;
        sub.distinct_enumerated += tally.nontrivial;
        sub
    });
    let mut out = proto.fork();
    out.required = proto.required.clone();
    out.floor = 1_000_000;
    out.exhaustive = true;
    for p in parts {
        out.merge(p);
    }
    out.sample(|| format!("{}: e.g. (-128|0).wrapped_between(0, 127), 5.pingpong(100), 7.clamped(5,10) ... all {} x {} x {} triples", T::NAME, span, span, span));
    rep.push(out);
}

// ------------------------------------------------------------------------------------
// wider integers: stratified boundary sweep against i128

macro_rules! wide_int_sweep {
    ($sub:expr, $cfg:expr, $idx:expr, $T:ty, $name:expr) => {{
        type T = $T;
        let min = <T>::MIN as i128;
        let max = <T>::MAX as i128;
        let mut rng = Rng::for_case(concat!("wide/", $name), $cfg.case_seed(), $idx);
        let mut pick = |rng: &mut Rng| -> i128 {
            let v = match rng.below(12) {
                0 => min,
                1 => min + 1,
                2 => max,
                3 => max - 1,
                4 => 0,
                5 => 1,
                6 => -1,
                7 => max / 2,
                8 => max / 2 + 1,
                9 => min / 2,
                _ => {
                    // random with random magnitude
                    let bits = rng.below(<T>::BITS as u64) as u32;
                    let m = (rng.next_u64() as i128) & ((1i128 << bits) - 1);
                    if min < 0 && rng.bool() { -m } else { m }
                }
            };
            v.clamp(min, max)
        };
        let (v, lo, hi) = (pick(&mut rng), pick(&mut rng), pick(&mut rng));
        let (a, b, c) = (v as T, lo as T, hi as T);
        let mut h = H64::new();
        h.s($name).i(v).i(lo).i(hi);
        let mut bad: Option<(&str, &str, &str, String)> = None;
        let mut chk = |api: &'static str, f: &'static str, exp: Option<i128>, got: Result<T, String>| {
            $sub.saw(api);
            let ok = match (&got, exp) {
                (Ok(g), Some(e)) => (*g as i128) == e,
                (Err(_), None) => true,
                _ => false,
            };
            if !ok && bad.is_none() {
                let class = match (&got, exp) {
                    (Ok(_), None) => "missing_panic",
                    (Err(_), _) => "panic",
                    _ => "wrong_value",
                };
                let what = match f {
                    "wrapped_between" | "wrapped" => {
                        if min < 0 && v < lo.max(0) && (lo.max(0) - v) + (hi - lo.max(0)) > max { "input_far_below_lower_bound" } else { "other" }
                    }
                    "pingpong" => if 2 * hi > max { "upper_above_half_of_type_max" } else { "other" },
                    _ => "other",
                };
                bad = Some((api, class, what, format!("{}::{} value={} lower={} upper={} -> {:?}, expected {:?}", $name, f, v, lo, hi, got, exp)));
            }
        };
        chk("Clamp::clamped", "clamped", if lo > hi { None } else { Some(v.max(lo).min(hi)) }, guarded(|| a.clamped(b, c)));
        chk("Wrap::wrapped_between", "wrapped_between", if !(lo < hi) || lo < 0 || hi <= 0 { None } else { Some(lo + (v - lo).rem_euclid(hi - lo)) }, guarded(|| a.wrapped_between(b, c)));
        chk("Wrap::wrapped", "wrapped", if hi <= 0 { None } else { Some(v.rem_euclid(hi)) }, guarded(|| a.wrapped(c)));
        chk("Wrap::pingpong", "pingpong", if hi <= 0 { None } else { let m = v.rem_euclid(2 * hi); Some(if m <= hi { m } else { 2 * hi - m }) }, guarded(|| a.pingpong(c)));
        $sub.saw("IsBetween::is_between");
        let gb = guarded(|| a.is_between(b, c));
        let eb = if lo > hi { None } else { Some(lo <= v && v <= hi) };
        if gb.clone().ok() != eb && bad.is_none() {
            bad = Some(("IsBetween::is_between", "wrong_value", "other", format!("{}::is_between value={} lower={} upper={} -> {:?}, expected {:?}", $name, v, lo, hi, gb, eb)));
        }
        match bad {
            None => $sub.held(h.get(), lo <= hi),
            Some((api, class, what, detail)) => {
                let vio = violation(PROP, $sub, api, $name, class, what, detail, $cfg.case_seed(), $idx);
                $sub.violated(vio)
            }
        }
    }};
}

/// Wrapping<16..64-bit and pointer-sized> integers: the same laws on inputs whose intermediate
/// quantities stay far from the type limits (so that wrap-around cannot be part of the answer)
macro_rules! wide_wrapping_sweep {
    ($sub:expr, $cfg:expr, $idx:expr, $I:ty, $name:expr) => {{
        type I = $I;
        let min = (<I>::MIN as i128) / 8;
        let max = (<I>::MAX as i128) / 8;
        let mut rng = Rng::for_case(concat!("wide_wrapping/", $name), $cfg.case_seed(), $idx);
        let mut pick = |rng: &mut Rng| -> i128 {
            let v = match rng.below(8) {
                0 => 0,
                1 => 1,
                2 => -1,
                3 | 4 => rng.range_i64(-40, 40) as i128,
                _ => {
                    let bits = rng.below(<I>::BITS as u64 - 3) as u32;
                    let m = (rng.next_u64() as i128) & ((1i128 << bits) - 1);
                    if min < 0 && rng.bool() { -m } else { m }
                }
            };
            v.clamp(min, max)
        };
        let (v, lo, hi) = (pick(&mut rng), pick(&mut rng), pick(&mut rng));
        let (a, b, c) = (Wrapping(v as I), Wrapping(lo as I), Wrapping(hi as I));
        let mut h = H64::new();
        h.s($name).i(v).i(lo).i(hi);
        let mut bad: Option<(&str, &str, String)> = None;
        let mut chk = |api: &'static str, f: &'static str, exp: Option<i128>, got: Result<Wrapping<I>, String>| {
            $sub.saw(api);
            let ok = match (&got, exp) {
                (Ok(g), Some(e)) => (g.0 as i128) == e,
                (Err(_), None) => true,
                _ => false,
            };
            if !ok && bad.is_none() {
                let class = match (&got, exp) {
                    (Ok(_), None) => "missing_panic",
                    (Err(_), _) => "panic",
                    _ => "wrong_value",
                };
                bad = Some((api, class, format!("{}::{} value={} lower={} upper={} -> {:?}, expected {:?}", $name, f, v, lo, hi, got, exp)));
            }
        };
        chk("Clamp::clamped", "clamped", if lo > hi { None } else { Some(v.max(lo).min(hi)) }, guarded(|| a.clamped(b, c)));
        chk("Wrap::wrapped_between", "wrapped_between", if !(lo < hi) || lo < 0 || hi <= 0 { None } else { Some(lo + (v - lo).rem_euclid(hi - lo)) }, guarded(|| a.wrapped_between(b, c)));
        chk("Wrap::wrapped", "wrapped", if hi <= 0 { None } else { Some(v.rem_euclid(hi)) }, guarded(|| a.wrapped(c)));
        chk("Wrap::pingpong", "pingpong", if hi <= 0 { None } else { let m = v.rem_euclid(2 * hi); Some(if m <= hi { m } else { 2 * hi - m }) }, guarded(|| a.pingpong(c)));
        match bad {
            None => $sub.held(h.get(), lo <= hi),
            Some((api, class, detail)) => {
                let vio = violation(PROP, $sub, api, $name, class, "other", detail, $cfg.case_seed(), $idx);
                $sub.violated(vio)
            }
        }
    }};
}

// ------------------------------------------------------------------------------------
// floats

fn ulp_of(x: f64, bits32: bool) -> f64 {
    let m = x.abs().max(f64::MIN_POSITIVE);
    if bits32 {
        let f = m as f32;
        (f32::from_bits(f.to_bits() + 1) - f) as f64
    } else {
        f64::from_bits(m.to_bits() + 1) - m
    }
}

macro_rules! float_case {
    ($sub:expr, $cfg:expr, $idx:expr, $F:ty, $name:expr, $is32:expr) => {{
        type F = $F;
        let mut rng = Rng::for_case(concat!("float/", $name), $cfg.case_seed(), $idx);
        let mut val = |rng: &mut Rng| -> F {
            match rng.below(14) {
                0 => 0.0,
                1 => -0.0,
                2 => -(F::MIN_POSITIVE),
                3 => -1e-20 as F,
                4 => 1e-20 as F,
                5 => (rng.range_i64(-50, 50) as F),
                6 => (rng.range_i64(-50, 50) as F) * 0.5,
                7 => rng.f64_in(-1e6, 1e6) as F,
                8 => rng.f64_in(-1e15, 1e15) as F,
                9 => (10.0f64.powf(rng.f64_in(-30.0, 30.0)) * if rng.bool() { 1.0 } else { -1.0 }) as F,
                _ => rng.f64_in(-100.0, 100.0) as F,
            }
        };
        let mut upper = |rng: &mut Rng| -> F {
            match rng.below(8) {
                0 => 1.0,
                1 => 3.0,
                2 => (10.0f64.powf(rng.f64_in(-6.0, 6.0))) as F,
                3 => 360.0,
                4 => std::f64::consts::TAU as F,
                _ => rng.f64_in(0.001, 1000.0) as F,
            }
        };
        let x = val(&mut rng);
        let up = upper(&mut rng);
        let mut h = H64::new();
        h.s($name).f(x as f64).f(up as f64);
        let mut bad: Option<(&str, &str, String)> = None;
        let xm = (x as f64).abs().max(up as f64);
        let tol = 8.0 * ulp_of(xm, $is32);
        // wrapped
        $sub.saw("Wrap::wrapped");
        match guarded(|| x.wrapped(up)) {
            Ok(r) => {
                let r = r as f64;
                let k = ((x as f64) - r) / (up as f64);
                let cong = (k - k.round()).abs() * (up as f64);
                if !(r >= -tol && r <= up as f64 + tol) {
                    bad = Some(("Wrap::wrapped", "out_of_range", format!("{}: {:e}.wrapped({:e}) = {:e} not in [0, upper] (tol {:e})", $name, x, up, r, tol)));
                } else if !(cong <= tol * 2.0 + 4.0 * ulp_of(k.abs() * up as f64, $is32)) {
                    bad = Some(("Wrap::wrapped", "not_congruent", format!("{}: {:e}.wrapped({:e}) = {:e}; (x-r)/upper = {} is not an integer within tolerance", $name, x, up, r, k)));
                }
            }
            Err(e) => bad = Some(("Wrap::wrapped", "unexpected_panic", format!("{}: {:e}.wrapped({:e}) panicked: {}", $name, x, up, e))),
        }
        // pingpong: triangle wave in [0,upper]
        $sub.saw("Wrap::pingpong");
        if bad.is_none() {
            match guarded(|| x.pingpong(up)) {
                Ok(r) => {
                    let r = r as f64;
                    let (xf, uf) = (x as f64, up as f64);
                    let m = xf - (xf / (2.0 * uf)).floor() * 2.0 * uf;
                    let e = uf - (m - uf).abs();
                    let tol2 = tol * 4.0;
                    if !(r >= -tol2 && r <= uf + tol2) {
                        bad = Some(("Wrap::pingpong", "out_of_range", format!("{}: {:e}.pingpong({:e}) = {:e} not in [0, upper]", $name, x, up, r)));
                    } else if (r - e).abs() > tol2 && (xf.abs() / uf) < 1e12 {
                        bad = Some(("Wrap::pingpong", "not_triangle_wave", format!("{}: {:e}.pingpong({:e}) = {:e}, triangle wave gives {:e}", $name, x, up, r, e)));
                    }
                }
                Err(e) => bad = Some(("Wrap::pingpong", "unexpected_panic", format!("{}: {:e}.pingpong({:e}) panicked: {}", $name, x, up, e))),
            }
        }
        // wrapped_between with 0 <= lower < upper
        $sub.saw("Wrap::wrapped_between");
        if bad.is_none() {
            let lo = (up as f64 * rng.unit_f64() * 0.9) as F;
            match guarded(|| x.wrapped_between(lo, up)) {
                Ok(r) => {
                    let r = r as f64;
                    let period = (up - lo) as f64;
                    let k = ((x as f64) - r) / period;
                    let cong = (k - k.round()).abs() * period;
                    let t2 = tol * 4.0 + 4.0 * ulp_of(k.abs() * period, $is32);
                    if lo < up && !(r >= lo as f64 - t2 && r <= up as f64 + t2) {
                        bad = Some(("Wrap::wrapped_between", "out_of_range", format!("{}: {:e}.wrapped_between({:e},{:e}) = {:e} outside [lower, upper]", $name, x, lo, up, r)));
                    } else if lo < up && period > 64.0 * ulp_of(up as f64, $is32) && !(cong <= t2) {
                        bad = Some(("Wrap::wrapped_between", "not_congruent", format!("{}: {:e}.wrapped_between({:e},{:e}) = {:e}; k = {}", $name, x, lo, up, r, k)));
                    }
                }
                Err(e) => {
                    if lo < up {
                        bad = Some(("Wrap::wrapped_between", "unexpected_panic", format!("{}: {:e}.wrapped_between({:e},{:e}) panicked: {}", $name, x, lo, up, e)));
                    }
                }
            }
        }
        // documented panics
        if bad.is_none() {
            let neg = -(up.abs());
            for (api, r) in [
                ("Wrap::wrapped", guarded(|| x.wrapped(neg)).is_err()),
                ("Wrap::wrapped", guarded(|| x.wrapped(0.0 as F)).is_err()),
                ("Wrap::pingpong", guarded(|| x.pingpong(neg)).is_err()),
                ("Wrap::wrapped_between", guarded(|| x.wrapped_between(up, up)).is_err()),
                ("Wrap::wrapped_between", guarded(|| x.wrapped_between(neg, up)).is_err()),
                ("Clamp::clamped", guarded(|| x.clamped(up, neg)).is_err()),
                ("IsBetween::is_between", guarded(|| x.is_between(up, neg)).is_err()),
                ("Clamp::clamped", guarded(|| x.clamped(F::NAN, up)).is_err()),
            ] {
                if !r {
                    bad = Some((api, "missing_panic", format!("{}: documented panic did not occur for x={:e} upper={:e}", $name, x, up)));
                }
            }
        }
        // clamp / between / partial_min/max on floats
        if bad.is_none() {
            let lo = val(&mut rng);
            let hi = val(&mut rng);
            let (lo, hi) = if lo <= hi { (lo, hi) } else { (hi, lo) };
            $sub.saw("Clamp::clamped");
            $sub.saw("IsBetween::is_between");
            let r = x.clamped(lo, hi);
            let e = if x < lo { lo } else if x > hi { hi } else { x };
            let inb = x.is_between(lo, hi);
            if !(r == e) || inb != (lo <= x && x <= hi) || r.clamped(lo, hi) != r || !r.is_between(lo, hi) {
                bad = Some(("Clamp::clamped", "wrong_value", format!("{}: {:e}.clamped({:e},{:e}) = {:e} expected {:e}; is_between = {}", $name, x, lo, hi, r, e, inb)));
            }
            // values that are not ordered with the bounds, and infinite ones: the range test is the
            // IEEE conjunction lower <= x && x <= upper, and a value the range test accepts is
            // returned unchanged by clamped
            for xs in [F::NAN, F::INFINITY, F::NEG_INFINITY] {
                let inb = xs.is_between(lo, hi);
                let cl = guarded(|| xs.clamped(lo, hi));
                if inb != (lo <= xs && xs <= hi) {
                    bad = Some(("IsBetween::is_between", "wrong_value", format!("{}: {:e}.is_between({:e},{:e}) = {}, the closed-interval test gives {}", $name, xs, lo, hi, inb, lo <= xs && xs <= hi)));
                } else if let Ok(c) = cl {
                    if inb && !(c == xs) {
                        bad = Some(("Clamp::clamped", "wrong_value", format!("{}: {:e} passes is_between({:e},{:e}) but clamped returns {:e}", $name, xs, lo, hi, c)));
                    }
                }
            }
            $sub.saw("partial_min");
            $sub.saw("partial_max");
            if partial_min(x, lo) != (if x <= lo { x } else { lo }) || partial_max(x, lo) != (if x >= lo { x } else { lo }) {
                bad = Some(("partial_min", "wrong_value", format!("{}: partial_min/max({:e},{:e})", $name, x, lo)));
            }
            // clamped01 / clamped_minus1_1 / aliases
            $sub.saw("Clamp::clamped01");
            $sub.saw("Clamp::clamped_minus1_1");
            let c01 = x.clamped01();
            let cm = x.clamped_minus1_1();
            let e01 = if x < 0.0 { 0.0 } else if x > 1.0 { 1.0 } else { x };
            let em = if x < -1.0 { -1.0 } else if x > 1.0 { 1.0 } else { x };
            if c01 != e01 || cm != em || F::clamp01(x) != e01 || F::clamp_minus1_1(x) != em || x.is_between01() != (0.0 <= x && x <= 1.0) {
                bad = Some(("Clamp::clamped01", "wrong_value", format!("{}: clamped01({:e}) = {:e}, clamped_minus1_1 = {:e}", $name, x, c01, cm)));
            }
        }
        // angle differences
        if bad.is_none() {
            let a = rng.f64_in(-20.0, 20.0) as F;
            let b = rng.f64_in(-20.0, 20.0) as F;
            $sub.saw("Wrap::delta_angle");
            let d = a.delta_angle(b) as f64;
            let pi = std::f64::consts::PI;
            let t = 64.0 * ulp_of(40.0, $is32);
            let k = ((b as f64 - a as f64) - d) / (2.0 * pi);
            if !(d > -pi - t && d <= pi + t) || (k - k.round()).abs() * 2.0 * pi > t {
                bad = Some(("Wrap::delta_angle", "wrong_value", format!("{}: {:e}.delta_angle({:e}) = {:e}", $name, a, b, d)));
            }
            let a = rng.f64_in(-2000.0, 2000.0) as F;
            let b = rng.f64_in(-2000.0, 2000.0) as F;
            $sub.saw("Wrap::delta_angle_degrees");
            let d = a.delta_angle_degrees(b) as f64;
            let t = 64.0 * ulp_of(4000.0, $is32);
            let k = ((b as f64 - a as f64) - d) / 360.0;
            if !(d > -180.0 - t && d <= 180.0 + t) || (k - k.round()).abs() * 360.0 > t {
                bad = Some(("Wrap::delta_angle_degrees", "wrong_value", format!("{}: {:e}.delta_angle_degrees({:e}) = {:e}", $name, a, b, d)));
            }
            // the half-open boundary, hit exactly: half-integer degrees, every intermediate exact in
            // the type, so the result must be exactly the representative in (-180, 180]
            if bad.is_none() {
                let a2 = (rng.range_i64(-1440, 1440) as f64) * 0.5;
                let turns = rng.range_i64(-3, 3) as f64;
                let off = *rng.pick(&[180.0, -180.0, 179.5, -179.5, 180.5, 0.0, 360.0, 90.0, -90.5]);
                let b2 = a2 + off + 360.0 * turns;
                let mut e = off % 360.0;
                if e > 180.0 {
                    e -= 360.0;
                }
                if e <= -180.0 {
                    e += 360.0;
                }
                let d = (a2 as F).delta_angle_degrees(b2 as F) as f64;
                if d != e {
                    bad = Some(("Wrap::delta_angle_degrees", "wrong_value", format!("{}: {:e}.delta_angle_degrees({:e}) = {:e}, the representative of {:e} in (-180, 180] is {:e} (all values exact in the type)", $name, a2, b2, d, b2 - a2, e)));
                }
            }
            $sub.saw("Wrap::wrapped_2pi");
            let w = a.wrapped_2pi() as f64;
            let k = (a as f64 - w) / (2.0 * pi);
            if !(w >= -t && w <= 2.0 * pi + t) || (k - k.round()).abs() * 2.0 * pi > t * 8.0 || F::wrap_2pi(a) as f64 != w {
                bad = Some(("Wrap::wrapped_2pi", "wrong_value", format!("{}: {:e}.wrapped_2pi() = {:e}", $name, a, w)));
            }
        }
        match bad {
            None => {
                $sub.sample(|| format!("{}: x={:e} upper={:e}: wrapped={:e} pingpong={:e}", $name, x, up, x.wrapped(up), x.pingpong(up)));
                $sub.held(h.get(), x != 0.0)
            }
            Some((api, what, detail)) => {
                let class = if what == "missing_panic" { "missing_panic" } else if what == "unexpected_panic" { "panic" } else { "wrong_value" };
                let vio = violation(PROP, $sub, api, $name, class, what, detail, $cfg.case_seed(), $idx);
                $sub.violated(vio)
            }
        }
    }};
}

// ------------------------------------------------------------------------------------
// vector lifts: per lane against the scalar call, panic-equivalent

macro_rules! lift_case {
    ($sub:expr, $cfg:expr, $idx:expr, $V:ident) => {{
        type V = $V<i32>;
        let n = <V as VecX<i32>>::DIM;
        let mut rng = Rng::for_case(concat!("lift/", stringify!($V)), $cfg.case_seed(), $idx);
        let mut g = |rng: &mut Rng| -> i32 {
            match rng.below(6) {
                0 => 0,
                1 => rng.range_i64(-3, 3) as i32,
                _ => rng.range_i64(-40, 40) as i32,
            }
        };
        let v = V::from_fn(|_| g(&mut rng));
        let lo = V::from_fn(|_| g(&mut rng).abs() / 4);
        let hi = V::from_fn(|i| lo.get(i) + if rng.chance(1, 12) { -(g(&mut rng).abs()) } else { 1 + g(&mut rng).abs() });
        let (slo, shi) = (lo.get(0), hi.get(0));
        let mut h = H64::new();
        h.s(stringify!($V));
        for i in 0..n {
            h.i(v.get(i) as i128).i(lo.get(i) as i128).i(hi.get(i) as i128);
        }
        let mut bad: Option<(&'static str, String)> = None;
        // per-lane bounds
        macro_rules! per_lane {
            ($api:expr, $vf:expr, $sf:expr) => {{
                $sub.saw($api);
                let got = guarded(|| $vf);
                let lanes: Vec<Result<i32, String>> = (0..n).map(|i| guarded(|| $sf(i))).collect();
                let any_panic = lanes.iter().any(|l| l.is_err());
                match (&got, any_panic) {
                    (Err(_), true) => {}
                    (Ok(g), false) => {
                        for i in 0..n {
                            if Ok(g.get(i)) != lanes[i] && bad.is_none() {
                                bad = Some(($api, format!("{}: lane {} is {} but the scalar call gives {:?}; v={:?} lo={:?} hi={:?}", $api, i, g.get(i), lanes[i], v, lo, hi)));
                            }
                        }
                    }
                    _ => {
                        if bad.is_none() {
                            bad = Some(($api, format!("{}: vector form {} but scalar lanes {:?}; v={:?} lo={:?} hi={:?}", $api, if got.is_err() { "panicked" } else { "returned" }, lanes, v, lo, hi)));
                        }
                    }
                }
            }};
        }
        per_lane!(concat!("Clamp<", stringify!($V), "> for ", stringify!($V)), v.clamped(lo, hi), |i: usize| v.get(i).clamped(lo.get(i), hi.get(i)));
        per_lane!(concat!("Clamp<T> for ", stringify!($V)), v.clamped(slo, shi), |i: usize| v.get(i).clamped(slo, shi));
        per_lane!(concat!("Wrap<", stringify!($V), "> for ", stringify!($V), "::wrapped"), v.wrapped(hi), |i: usize| v.get(i).wrapped(hi.get(i)));
        per_lane!(concat!("Wrap<T> for ", stringify!($V), "::wrapped"), v.wrapped(shi), |i: usize| v.get(i).wrapped(shi));
        per_lane!(concat!("Wrap<", stringify!($V), "> for ", stringify!($V), "::wrapped_between"), v.wrapped_between(lo, hi), |i: usize| v.get(i).wrapped_between(lo.get(i), hi.get(i)));
        per_lane!(concat!("Wrap<T> for ", stringify!($V), "::wrapped_between"), v.wrapped_between(slo, shi), |i: usize| v.get(i).wrapped_between(slo, shi));
        per_lane!(concat!("Wrap<", stringify!($V), "> for ", stringify!($V), "::pingpong"), v.pingpong(hi), |i: usize| v.get(i).pingpong(hi.get(i)));
        per_lane!(concat!("Wrap<T> for ", stringify!($V), "::pingpong"), v.pingpong(shi), |i: usize| v.get(i).pingpong(shi));
        // is_between -> Vec<bool>
        {
            let api = concat!("IsBetween for ", stringify!($V));
            $sub.saw(api);
            let got = guarded(|| v.is_between(lo, hi));
            let lanes: Vec<Result<bool, String>> = (0..n).map(|i| guarded(|| v.get(i).is_between(lo.get(i), hi.get(i)))).collect();
            let any_panic = lanes.iter().any(|l| l.is_err());
            match (&got, any_panic) {
                (Err(_), true) => {}
                (Ok(g), false) => {
                    for i in 0..n {
                        if Ok(*VecX::at(g, i)) != lanes[i] && bad.is_none() {
                            bad = Some((api, format!("{}: lane {} differs from the scalar call; v={:?} lo={:?} hi={:?}", api, i, v, lo, hi)));
                        }
                    }
                }
                _ => {
                    if bad.is_none() {
                        bad = Some((api, format!("{}: panic behaviour differs from scalar lanes; v={:?} lo={:?} hi={:?}", api, v, lo, hi)));
                    }
                }
            }
            let got2 = guarded(|| v.is_between(slo, shi));
            let lanes2: Vec<Result<bool, String>> = (0..n).map(|i| guarded(|| v.get(i).is_between(slo, shi))).collect();
            if let (Ok(g), false) = (&got2, lanes2.iter().any(|l| l.is_err())) {
                for i in 0..n {
                    if Ok(*VecX::at(g, i)) != lanes2[i] && bad.is_none() {
                        bad = Some((api, format!("{}: broadcast-bound lane {} differs; v={:?} lo={} hi={}", api, i, v, slo, shi)));
                    }
                }
            } else if got2.is_ok() != !lanes2.iter().any(|l| l.is_err()) && bad.is_none() {
                bad = Some((api, format!("{}: broadcast-bound panic behaviour differs; v={:?} lo={} hi={}", api, v, slo, shi)));
            }
        }
        match bad {
            None => $sub.held(h.get(), true),
            Some((api, detail)) => {
                let vio = violation(PROP, $sub, api, "i32", "wrong_value", "lane_differs_from_scalar", detail, $cfg.case_seed(), $idx);
                $sub.violated(vio)
            }
        }
    }};
}

fn main() {
    let cfg = Config::from_args(PROP);
    let mut rep = Report::new(cfg.clone());

    exhaustive_ternary::<i8>(&cfg, &mut rep);
    exhaustive_ternary::<u8>(&cfg, &mut rep);
    exhaustive_ternary::<Wrapping<i8>>(&cfg, &mut rep);
    exhaustive_ternary::<Wrapping<u8>>(&cfg, &mut rep);

    let nw = cfg.n(20_000, 8_000_000);
    {
        let proto = Sub::new("wide_ints", "stratified boundary sweep of (value, lower, upper) for i16 i32 i64 isize u16 u32 u64 usize: each drawn from {MIN, MIN+1, MAX, MAX-1, 0, +-1, MAX/2, MAX/2+1, MIN/2, random magnitude}; clamped / is_between / wrapped_between / wrapped / pingpong against an i128 model incl. required panics; non-trivial = ordered bounds; distinct by hash of the triple").with_floor((nw / 8).min(100_000));
        let s = run_cases(&cfg, proto, nw, |s, i| match i % 8 {
            0 => wide_int_sweep!(s, &cfg, i, i16, "i16"),
            1 => wide_int_sweep!(s, &cfg, i, i32, "i32"),
            2 => wide_int_sweep!(s, &cfg, i, i64, "i64"),
            3 => wide_int_sweep!(s, &cfg, i, isize, "isize"),
            4 => wide_int_sweep!(s, &cfg, i, u16, "u16"),
            5 => wide_int_sweep!(s, &cfg, i, u32, "u32"),
            6 => wide_int_sweep!(s, &cfg, i, u64, "u64"),
            _ => wide_int_sweep!(s, &cfg, i, usize, "usize"),
        });
        rep.push(s);
        let proto = Sub::new("wide_wrapping", "Wrapping<i16 i32 i64 isize u16 u32 u64 usize>: (value, lower, upper) from {0, +-1, small, random magnitude} within an eighth of the type's range (no wrap-around in any intermediate): clamped / wrapped_between / wrapped / pingpong against an i128 model incl. required panics; non-trivial = ordered bounds; distinct by hash of the triple").with_floor((nw / 16).min(50_000));
        let s = run_cases(&cfg, proto, nw / 2, |s, i| match i % 8 {
            0 => wide_wrapping_sweep!(s, &cfg, i, i16, "Wrapping<i16>"),
            1 => wide_wrapping_sweep!(s, &cfg, i, i32, "Wrapping<i32>"),
            2 => wide_wrapping_sweep!(s, &cfg, i, i64, "Wrapping<i64>"),
            3 => wide_wrapping_sweep!(s, &cfg, i, isize, "Wrapping<isize>"),
            4 => wide_wrapping_sweep!(s, &cfg, i, u16, "Wrapping<u16>"),
            5 => wide_wrapping_sweep!(s, &cfg, i, u32, "Wrapping<u32>"),
            6 => wide_wrapping_sweep!(s, &cfg, i, u64, "Wrapping<u64>"),
            _ => wide_wrapping_sweep!(s, &cfg, i, usize, "Wrapping<usize>"),
        });
        rep.push(s);
    }
    let nf = cfg.n(40_000, 8_000_000);
    {
        let proto = Sub::new("floats", "f32 and f64: value from {+-0, tiny negatives, half-integers, exact multiples, magnitudes 1e-30..1e30, uniform}, upper from {1, 3, 360, 2pi, 10^-6..10^6, uniform}: wrapped in [0,upper] and congruent within 8 ulp of max(|x|,upper); pingpong in range and on the triangle wave; wrapped_between; documented panics (non-positive/inverted/NaN bounds) required; clamp family, partial_min/max, delta_angle(_degrees) in (-pi,pi] / (-180,180] and congruent; non-trivial = x != 0").with_floor(nf / 4);
        let s = run_cases(&cfg, proto, nf, |s, i| {
            if i % 2 == 0 {
                float_case!(s, &cfg, i, f64, "f64", false)
            } else {
                float_case!(s, &cfg, i, f32, "f32", true)
            }
        });
        rep.push(s);
    }
    let nl = cfg.n(1_000, 200_000);
    {
        let proto = Sub::new("vector_lifts", "Clamp/IsBetween/Wrap lifted to all 13 vector kinds (i32 lanes), per-lane bounds and broadcast scalar bounds: every lane equals the scalar call, and the vector form panics iff some lane's scalar call panics (about 1 in 12 lanes gets inverted bounds); distinct by hash of all lanes").with_floor(nl);
        let s = run_cases(&cfg, proto, nl, |s, i| {
            macro_rules! one {
                ($V:ident) => {
                    lift_case!(s, &cfg, i, $V);
                };
            }
            for_all_vec_kinds!(one);
        });
        rep.push(s);
    }
    std::process::exit(rep.finish());
}

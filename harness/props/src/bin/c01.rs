//! C01 — matrix products are the linear-algebra product in both storage layouts.
//!
//! Trace sub-checks: the operands are filled with distinct free `Sym` symbols through the raw
//! public fields, vek's real `Mul`/`Add`/... impls run once, and each output element's logged
//! expression is compared with the textbook definition by polynomial identity testing
//! (ring ops) or structurally (`/`, `%`).  Value sub-checks run the same operators on exact
//! rationals, integers and short-dyadic floats against a naive triple loop.

use monitors::fp::Fp;
use monitors::gen::{biased_q, matmul, matvec};
use monitors::prng::{Rng, H64};
use monitors::report::{guarded, run_cases, take_poison, Config, Report, Sub, Violation};
use monitors::scalar::Mon;
use monitors::sym::{sym_reset, Op, Sym};
use monitors::Q;
use props::*;
use vek::vec::repr_c::{Vec2, Vec3, Vec4};

const PROP: &str = "C01";

fn fill<M: MatX<Sym>>(base: u32) -> M {
    let n = M::N as u32;
    M::from_fn(|i, j| Sym::var(base + i as u32 * n + j as u32))
}
fn outs<M: MatX<Sym>>(m: &M) -> Vec<Sym> {
    let mut v = Vec::new();
    for i in 0..M::N {
        for j in 0..M::N {
            v.push(m.get(i, j));
        }
    }
    v
}

// ------------------------------------------------------------------ matrix * matrix (trace)

fn mm_trace<A, B, C>(sub: &mut Sub, cfg: &Config, idx: u64)
where
    A: MatX<Sym> + std::ops::Mul<B, Output = C> + Copy,
    B: MatX<Sym> + Copy,
    C: MatX<Sym>,
{
    let n = A::N;
    sym_reset();
    let a: A = fill(0);
    let b: B = fill((n * n) as u32);
    let name = format!("{}*{}", A::NAME, B::NAME);
    let c = match guarded(|| a * b) {
        Ok(c) => c,
        Err(e) => {
            let v = violation(PROP, sub, &format!("Mul<{}> for {}", B::NAME, A::NAME), "Sym", "panic", &name, e, cfg.seed, idx);
            sub.violated(v);
            return;
        }
    };
    let o = outs(&c);
    decide_pit(PROP, sub, &format!("Mul<{}> for {}", B::NAME, A::NAME), "Sym", &name, &o, 2 * n * n, cfg.seed, idx, &|f| {
        let mut e = Vec::new();
        for i in 0..n {
            for j in 0..n {
                let mut s = Fp::ZERO;
                for k in 0..n {
                    s = s.add(f((i * n + k) as u32).mul(f((n * n + k * n + j) as u32)));
                }
                e.push(s);
            }
        }
        e
    });
    // identity neutrality, same impl, one operand the identity
    sym_reset();
    let a: A = fill(0);
    let id_b: B = B::from_fn(|i, j| if i == j { Sym::konst(1) } else { Sym::konst(0) });
    let c = a * id_b;
    decide_pit(PROP, sub, &format!("Mul<{}> for {}", B::NAME, A::NAME), "Sym", &format!("{}*identity", A::NAME), &outs(&c), n * n, cfg.seed, idx, &|f| {
        (0..n * n).map(|k| f(k as u32)).collect()
    });
}

// ------------------------------------------------------------------ matrix * vector (trace)

fn mv_trace<M, V>(sub: &mut Sub, cfg: &Config, idx: u64)
where
    M: MatX<Sym> + std::ops::Mul<V, Output = V> + Copy,
    V: VecX<Sym> + std::ops::Mul<M, Output = V> + Copy,
{
    let n = M::N;
    sym_reset();
    let m: M = fill(0);
    let v: V = V::from_fn(|i| Sym::var((n * n + i) as u32));
    let r = m * v;
    let o: Vec<Sym> = (0..n).map(|i| r.get(i)).collect();
    decide_pit(PROP, sub, &format!("Mul<{}> for {}", V::NAME, M::NAME), "Sym", &format!("{}*{}", M::NAME, V::NAME), &o, n * n + n, cfg.seed, idx, &|f| {
        (0..n)
            .map(|i| {
                let mut s = Fp::ZERO;
                for k in 0..n {
                    s = s.add(f((i * n + k) as u32).mul(f((n * n + k) as u32)));
                }
                s
            })
            .collect()
    });
    sym_reset();
    let m: M = fill(0);
    let v: V = V::from_fn(|i| Sym::var((n * n + i) as u32));
    let r = v * m;
    let o: Vec<Sym> = (0..n).map(|i| r.get(i)).collect();
    decide_pit(PROP, sub, &format!("Mul<{}> for {}", M::NAME, V::NAME), "Sym", &format!("{}*{}", V::NAME, M::NAME), &o, n * n + n, cfg.seed, idx, &|f| {
        (0..n)
            .map(|j| {
                let mut s = Fp::ZERO;
                for k in 0..n {
                    s = s.add(f((n * n + k) as u32).mul(f((k * n + j) as u32)));
                }
                s
            })
            .collect()
    });
}

// ------------------------------------------------------------------ element-wise (trace, structural)

fn elementwise_trace<M>(sub: &mut Sub, cfg: &Config, idx: u64)
where
    M: MatX<Sym>
        + Copy
        + std::ops::Add<Output = M>
        + std::ops::Sub<Output = M>
        + std::ops::Div<Output = M>
        + std::ops::Rem<Output = M>
        + std::ops::Neg<Output = M>
        + std::ops::Add<Sym, Output = M>
        + std::ops::Sub<Sym, Output = M>
        + std::ops::Mul<Sym, Output = M>
        + std::ops::Div<Sym, Output = M>
        + std::ops::Rem<Sym, Output = M>
        + std::ops::AddAssign
        + std::ops::SubAssign
        + std::ops::DivAssign
        + std::ops::RemAssign
        + std::ops::MulAssign
        + std::ops::AddAssign<Sym>
        + std::ops::SubAssign<Sym>
        + std::ops::MulAssign<Sym>
        + std::ops::DivAssign<Sym>
        + std::ops::RemAssign<Sym>
        + std::ops::Mul<Output = M>,
{
    let n = M::N;
    let nn = (n * n) as u32;
    type BinF<M> = fn(M, M) -> M;
    let mm: [(&str, Op, BinF<M>); 8] = [
        ("Add", Op::Add, |a, b| a + b),
        ("Sub", Op::Sub, |a, b| a - b),
        ("Div", Op::Div, |a, b| a / b),
        ("Rem", Op::Rem, |a, b| a % b),
        ("AddAssign", Op::Add, |mut a, b| {
            a += b;
            a
        }),
        ("SubAssign", Op::Sub, |mut a, b| {
            a -= b;
            a
        }),
        ("DivAssign", Op::Div, |mut a, b| {
            a /= b;
            a
        }),
        ("RemAssign", Op::Rem, |mut a, b| {
            a %= b;
            a
        }),
    ];
    for (nm, op, f) in mm.iter() {
        sym_reset();
        let a: M = fill(0);
        let b: M = fill(nn);
        let c = f(a, b);
        let exp: Vec<Sym> = (0..nn).map(|k| Sym::bin(*op, Sym::var(k), Sym::var(nn + k))).collect();
        decide_structural(PROP, sub, &format!("{} for {}", nm, M::NAME), "Sym", &format!("{} {} {}", M::NAME, nm, M::NAME), &outs(&c), &exp, cfg.seed, idx);
    }
    type ScF<M> = fn(M, Sym) -> M;
    let ms: [(&str, Op, ScF<M>); 10] = [
        ("Add<T>", Op::Add, |a, s| a + s),
        ("Sub<T>", Op::Sub, |a, s| a - s),
        ("Mul<T>", Op::Mul, |a, s| a * s),
        ("Div<T>", Op::Div, |a, s| a / s),
        ("Rem<T>", Op::Rem, |a, s| a % s),
        ("AddAssign<T>", Op::Add, |mut a, s| {
            a += s;
            a
        }),
        ("SubAssign<T>", Op::Sub, |mut a, s| {
            a -= s;
            a
        }),
        ("MulAssign<T>", Op::Mul, |mut a, s| {
            a *= s;
            a
        }),
        ("DivAssign<T>", Op::Div, |mut a, s| {
            a /= s;
            a
        }),
        ("RemAssign<T>", Op::Rem, |mut a, s| {
            a %= s;
            a
        }),
    ];
    for (nm, op, f) in ms.iter() {
        sym_reset();
        let a: M = fill(0);
        let s = Sym::var(nn);
        let c = f(a, s);
        let exp: Vec<Sym> = (0..nn).map(|k| Sym::bin(*op, Sym::var(k), s)).collect();
        decide_structural(PROP, sub, &format!("{} for {}", nm, M::NAME), "Sym", &format!("{} {} scalar", M::NAME, nm), &outs(&c), &exp, cfg.seed, idx);
    }
    // Neg
    sym_reset();
    let a: M = fill(0);
    let c = -a;
    let exp: Vec<Sym> = (0..nn).map(|k| Sym::un(Op::Neg, Sym::var(k))).collect();
    decide_structural(PROP, sub, &format!("Neg for {}", M::NAME), "Sym", &format!("-{}", M::NAME), &outs(&c), &exp, cfg.seed, idx);
    // MulAssign (matrix): must be the matrix product self*rhs
    sym_reset();
    let mut a: M = fill(0);
    let b: M = fill(nn);
    a *= b;
    decide_pit(PROP, sub, &format!("MulAssign for {}", M::NAME), "Sym", &format!("{} *= {}", M::NAME, M::NAME), &outs(&a), 2 * n * n, cfg.seed, idx, &|f| {
        let mut e = Vec::new();
        for i in 0..n {
            for j in 0..n {
                let mut s = Fp::ZERO;
                for k in 0..n {
                    s = s.add(f((i * n + k) as u32).mul(f((n * n + k * n + j) as u32)));
                }
                e.push(s);
            }
        }
        e
    });
}

macro_rules! memberwise_and_consts {
    ($sub:expr, $cfg:expr, $idx:expr, $($M:ident),+) => {$({
        type M = $M<Sym>;
        let n = <M as MatX<Sym>>::N;
        let nn = (n * n) as u32;
        sym_reset();
        let a: M = fill(0);
        let b: M = fill(nn);
        let c = a.mul_memberwise(b);
        let exp: Vec<Sym> = (0..nn).map(|k| Sym::bin(Op::Mul, Sym::var(k), Sym::var(nn + k))).collect();
        decide_structural(PROP, $sub, &format!("{}::mul_memberwise", <M as MatX<Sym>>::NAME), "Sym", "mul_memberwise", &outs(&c), &exp, $cfg.seed, $idx);
        // identity / zero / One::one / Default: raw content
        sym_reset();
        let idm: Vec<Sym> = (0..n * n).map(|k| if k / n == k % n { Sym::konst(1) } else { Sym::konst(0) }).collect();
        let zm: Vec<Sym> = (0..n * n).map(|_| Sym::konst(0)).collect();
        decide_structural(PROP, $sub, &format!("{}::identity", <M as MatX<Sym>>::NAME), "Sym", "identity", &outs(&M::identity()), &idm, $cfg.seed, $idx);
        decide_structural(PROP, $sub, &format!("{}::zero", <M as MatX<Sym>>::NAME), "Sym", "zero", &outs(&M::zero()), &zm, $cfg.seed, $idx);
        decide_structural(PROP, $sub, &format!("One for {}", <M as MatX<Sym>>::NAME), "Sym", "one", &outs(&<M as num_traits::One>::one()), &idm, $cfg.seed, $idx);
        decide_structural(PROP, $sub, &format!("Default for {}", <M as MatX<Sym>>::NAME), "Sym", "default", &outs(&M::default()), &idm, $cfg.seed, $idx);
        decide_structural(PROP, $sub, &format!("Zero for {}", <M as MatX<Sym>>::NAME), "Sym", "Zero::zero", &outs(&<M as num_traits::Zero>::zero()), &zm, $cfg.seed, $idx);
        // identity on the left
        sym_reset();
        let a: M = fill(0);
        let c = M::identity() * a;
        decide_pit(PROP, $sub, &format!("Mul for {}", <M as MatX<Sym>>::NAME), "Sym", "identity*M", &outs(&c), n * n, $cfg.seed, $idx, &|f| (0..n * n).map(|k| f(k as u32)).collect());
    })+};
}

// ------------------------------------------------------------------ Vec4-as-2x2 helpers (trace)

fn mat2_helpers(sub: &mut Sub, cfg: &Config, idx: u64) {
    // 2x2 reference algebra over Fp, matrices as [[a,b],[c,d]]
    type M2 = [[Fp; 2]; 2];
    fn mul(a: M2, b: M2) -> M2 {
        matmul(a, b)
    }
    fn adj(a: M2) -> M2 {
        [[a[1][1], a[0][1].neg()], [a[1][0].neg(), a[0][0]]]
    }
    // interpretation of a Vec4 (x,y,z,w) as row-major [[x,y],[z,w]] or column-major [[x,z],[y,w]]
    fn from_rows(v: [Fp; 4]) -> M2 {
        [[v[0], v[1]], [v[2], v[3]]]
    }
    fn to_rows(m: M2) -> Vec<Fp> {
        vec![m[0][0], m[0][1], m[1][0], m[1][1]]
    }
    fn from_cols(v: [Fp; 4]) -> M2 {
        [[v[0], v[2]], [v[1], v[3]]]
    }
    fn to_cols(m: M2) -> Vec<Fp> {
        vec![m[0][0], m[1][0], m[0][1], m[1][1]]
    }
    type H = fn(Vec4<Sym>, Vec4<Sym>) -> Vec4<Sym>;
    type R = fn(M2, M2) -> M2;
    let table: [(&str, H, bool, R); 6] = [
        ("Vec4::mat2_rows_mul", |a, b| a.mat2_rows_mul(b), true, |a, b| mul(a, b)),
        ("Vec4::mat2_rows_adj_mul", |a, b| a.mat2_rows_adj_mul(b), true, |a, b| mul(adj(a), b)),
        ("Vec4::mat2_rows_mul_adj", |a, b| a.mat2_rows_mul_adj(b), true, |a, b| mul(a, adj(b))),
        ("Vec4::mat2_cols_mul", |a, b| a.mat2_cols_mul(b), false, |a, b| mul(a, b)),
        ("Vec4::mat2_cols_adj_mul", |a, b| a.mat2_cols_adj_mul(b), false, |a, b| mul(adj(a), b)),
        ("Vec4::mat2_cols_mul_adj", |a, b| a.mat2_cols_mul_adj(b), false, |a, b| mul(a, adj(b))),
    ];
    for (name, h, rows, r) in table.iter() {
        sym_reset();
        let a = Vec4::<Sym>::from_fn(|i| Sym::var(i as u32));
        let b = Vec4::<Sym>::from_fn(|i| Sym::var(4 + i as u32));
        let c = h(a, b);
        let o: Vec<Sym> = (0..4).map(|i| c.get(i)).collect();
        let rows = *rows;
        let r = *r;
        decide_pit(PROP, sub, name, "Sym", name, &o, 8, cfg.seed, idx, &move |f| {
            let av = [f(0), f(1), f(2), f(3)];
            let bv = [f(4), f(5), f(6), f(7)];
            if rows {
                to_rows(r(from_rows(av), from_rows(bv)))
            } else {
                to_cols(r(from_cols(av), from_cols(bv)))
            }
        });
    }
}

// ------------------------------------------------------------------ values

trait Elem: Mon + PartialEq {
    fn gen(rng: &mut Rng) -> Self;
    fn h(self, h: &mut H64);
    fn nz(self) -> bool;
}
impl Elem for Q {
    fn gen(rng: &mut Rng) -> Q {
        biased_q(rng, 9, 6)
    }
    fn h(self, h: &mut H64) {
        h.u(self.hash64());
    }
    fn nz(self) -> bool {
        !self.is_zero()
    }
}

/// plain machine types wrapped so they can share the `Mon`-generic naive reference
#[derive(Clone, Copy, Debug, PartialEq)]
struct I64w(i64);
#[derive(Clone, Copy, Debug, PartialEq)]
struct F64d(f64);

fn values_mm<A, B, C, T>(sub: &mut Sub, cfg: &Config, idx: u64, tname: &str)
where
    T: Elem,
    A: MatX<T> + std::ops::Mul<B, Output = C> + Copy,
    B: MatX<T> + Copy,
    C: MatX<T>,
{
    let name = format!("{}*{}", A::NAME, B::NAME);
    let mut rng = Rng::for_case(&format!("values_mm/{}/{}", name, tname), cfg.case_seed(), idx);
    let n = A::N;
    let mut ea = vec![vec![T::m_int(0); n]; n];
    let mut eb = vec![vec![T::m_int(0); n]; n];
    let mut h = H64::new();
    h.s(&name).s(tname);
    let mut zeros = 0;
    for i in 0..n {
        for j in 0..n {
            ea[i][j] = T::gen(&mut rng);
            eb[i][j] = T::gen(&mut rng);
            ea[i][j].h(&mut h);
            eb[i][j].h(&mut h);
            if !ea[i][j].nz() {
                zeros += 1;
            }
            if !eb[i][j].nz() {
                zeros += 1;
            }
        }
    }
    let a = A::from_fn(|i, j| ea[i][j]);
    let b = B::from_fn(|i, j| eb[i][j]);
    let api = format!("Mul<{}> for {}", B::NAME, A::NAME);
    sub.saw(&api);
    let c = match guarded(|| a * b) {
        Ok(c) => c,
        Err(e) => {
            let v = violation(PROP, sub, &api, tname, "panic", &name, format!("a={:?} b={:?}: {}", ea, eb, e), cfg.case_seed(), idx);
            sub.violated(v);
            return;
        }
    };
    // naive reference
    let mut bad = None;
    let mut exp = vec![vec![T::m_int(0); n]; n];
    for i in 0..n {
        for j in 0..n {
            let mut s = T::m_int(0);
            for k in 0..n {
                s = s.m_add(ea[i][k].m_mul(eb[k][j]));
            }
            exp[i][j] = s;
        }
    }
    if let Some(p) = take_poison() {
        sub.inconclusive(&format!("poison:{}", p));
        return;
    }
    for i in 0..n {
        for j in 0..n {
            if !(c.get(i, j) == exp[i][j]) {
                bad = Some((i, j));
            }
        }
    }
    match bad {
        None => {
            sub.sample(|| format!("{} [{}]: a={:?} b={:?} -> c[0][0]={:?}", api, tname, ea, eb, c.get(0, 0)));
            // non-trivial: not mostly zeros
            sub.held(h.get(), zeros * 2 < n * n * 2)
        }
        Some((i, j)) => {
            let v = violation(
                PROP,
                sub,
                &api,
                tname,
                "wrong_value",
                &name,
                format!("a={:?} b={:?}: element ({},{}) is {:?}, expected {:?}", ea, eb, i, j, c.get(i, j), exp[i][j]),
                cfg.case_seed(),
                idx,
            );
            sub.violated(v)
        }
    }
}

fn values_mv<M, V, T>(sub: &mut Sub, cfg: &Config, idx: u64, tname: &str)
where
    T: Elem,
    M: MatX<T> + std::ops::Mul<V, Output = V> + Copy,
    V: VecX<T> + std::ops::Mul<M, Output = V> + Copy,
{
    let n = M::N;
    let mut rng = Rng::for_case(&format!("values_mv/{}/{}", M::NAME, tname), cfg.case_seed(), idx);
    let mut em = vec![vec![T::m_int(0); n]; n];
    let mut ev = vec![T::m_int(0); n];
    let mut h = H64::new();
    h.s(M::NAME).s(tname);
    for i in 0..n {
        ev[i] = T::gen(&mut rng);
        ev[i].h(&mut h);
        for j in 0..n {
            em[i][j] = T::gen(&mut rng);
            em[i][j].h(&mut h);
        }
    }
    let m = M::from_fn(|i, j| em[i][j]);
    let v = V::from_fn(|i| ev[i]);
    let r1 = guarded(|| m * v);
    let r2 = guarded(|| v * m);
    let api1 = format!("Mul<{}> for {}", V::NAME, M::NAME);
    let api2 = format!("Mul<{}> for {}", M::NAME, V::NAME);
    sub.saw(&api1);
    sub.saw(&api2);
    let (r1, r2) = match (r1, r2) {
        (Ok(a), Ok(b)) => (a, b),
        (a, b) => {
            let e = a.err().or(b.err()).unwrap();
            let vio = violation(PROP, sub, &api1, tname, "panic", M::NAME, format!("m={:?} v={:?}: {}", em, ev, e), cfg.case_seed(), idx);
            sub.violated(vio);
            return;
        }
    };
    let mut e1 = vec![T::m_int(0); n];
    let mut e2 = vec![T::m_int(0); n];
    for i in 0..n {
        for k in 0..n {
            e1[i] = e1[i].m_add(em[i][k].m_mul(ev[k]));
            e2[i] = e2[i].m_add(ev[k].m_mul(em[k][i]));
        }
    }
    if let Some(p) = take_poison() {
        sub.inconclusive(&format!("poison:{}", p));
        return;
    }
    for i in 0..n {
        if !(r1.get(i) == e1[i]) {
            let vio = violation(PROP, sub, &api1, tname, "wrong_value", M::NAME, format!("m={:?} v={:?}: (m*v)[{}] = {:?}, expected {:?}", em, ev, i, r1.get(i), e1[i]), cfg.case_seed(), idx);
            sub.violated(vio);
            return;
        }
        if !(r2.get(i) == e2[i]) {
            let vio = violation(PROP, sub, &api2, tname, "wrong_value", M::NAME, format!("m={:?} v={:?}: (v*m)[{}] = {:?}, expected {:?}", em, ev, i, r2.get(i), e2[i]), cfg.case_seed(), idx);
            sub.violated(vio);
            return;
        }
    }
    sub.sample(|| format!("{} [{}]: m={:?} v={:?} -> {:?}", api1, tname, em, ev, (0..n).map(|i| r1.get(i)).collect::<Vec<_>>()));
    sub.held(h.get(), true);
}

// native machine types: run vek on the native type and compare with the exact rational model
fn native_mm<A64, Af>(sub: &mut Sub, cfg: &Config, idx: u64)
where
    A64: MatX<i64> + std::ops::Mul<Output = A64> + Copy,
    Af: MatX<f64> + std::ops::Mul<Output = Af> + Copy,
{
    let n = A64::N;
    let mut rng = Rng::for_case(&format!("native_mm/{}", A64::NAME), cfg.case_seed(), idx);
    let mut h = H64::new();
    h.s(A64::NAME);
    let mut ea = vec![vec![0i64; n]; n];
    let mut eb = vec![vec![0i64; n]; n];
    for i in 0..n {
        for j in 0..n {
            ea[i][j] = rng.range_i64(-1000, 1000);
            eb[i][j] = rng.range_i64(-1000, 1000);
            h.i(ea[i][j] as i128).i(eb[i][j] as i128);
        }
    }
    // i64
    let a = A64::from_fn(|i, j| ea[i][j]);
    let b = A64::from_fn(|i, j| eb[i][j]);
    let api = format!("Mul for {}", A64::NAME);
    sub.saw(&api);
    let c = a * b;
    // f64 with short dyadics: entries k/8, exact products and sums
    let fa = Af::from_fn(|i, j| ea[i][j] as f64 / 8.0);
    let fb = Af::from_fn(|i, j| eb[i][j] as f64 / 4.0);
    let fc = fa * fb;
    for i in 0..n {
        for j in 0..n {
            let mut s: i64 = 0;
            for k in 0..n {
                s += ea[i][k] * eb[k][j];
            }
            if c.get(i, j) != s {
                let v = violation(PROP, sub, &api, "i64", "wrong_value", A64::NAME, format!("a={:?} b={:?}: ({},{}) = {}, expected {}", ea, eb, i, j, c.get(i, j), s), cfg.case_seed(), idx);
                sub.violated(v);
                return;
            }
            if fc.get(i, j) != s as f64 / 32.0 {
                let v = violation(PROP, sub, &api, "f64", "wrong_value", A64::NAME, format!("a={:?}/8 b={:?}/4: ({},{}) = {}, expected {}", ea, eb, i, j, fc.get(i, j), s as f64 / 32.0), cfg.case_seed(), idx);
                sub.violated(v);
                return;
            }
        }
    }
    sub.held(h.get(), true);
}


/// Badly scaled float operands (added after seeded change C01_M): every entry is m * 2^e with its own
/// exponent e in -40..40, so neighbouring entries differ by many orders of magnitude.  Each output
/// element of a product is judged against the *componentwise* bound of a sum of products,
/// |got - exact| <= 8 eps * sum_k |a_ik| |b_kj| (exact = the sum evaluated in f64 with compensated
/// terms for f64 subjects), which any order of accumulation, fused or not, satisfies - and which an
/// "algebraically equivalent" rewrite that routes an element through unrelated, larger entries
/// (trace, determinant, row sums) does not.
fn scaled<M, V, F>(sub: &mut Sub, cfg: &Config, idx: u64)
where
    F: num_traits::Float + std::fmt::Debug + 'static,
    M: MatX<F, V = V> + Copy + std::ops::Mul<M, Output = M> + std::ops::Mul<V, Output = V> + std::ops::MulAssign<M>,
    V: VecX<F> + Copy + std::ops::Mul<M, Output = V>,
{
    let n = M::N;
    let f32s = std::mem::size_of::<F>() == 4;
    let tname = if f32s { "f32" } else { "f64" };
    let eps = if f32s { f32::EPSILON as f64 } else { f64::EPSILON };
    let mut rng = Rng::for_case(&format!("scaled/{}/{}", M::NAME, tname), cfg.case_seed(), idx);
    let mut draw = |rng: &mut Rng| -> F {
        let m = rng.range_i64(-16, 16) as f64 / 8.0;
        let e = if rng.chance(1, 3) { 0 } else { rng.range_i64(-40, 40) as i32 };
        F::from(m * 2f64.powi(e)).unwrap()
    };
    let ea: Vec<Vec<F>> = (0..n).map(|_| (0..n).map(|_| draw(&mut rng)).collect()).collect();
    let eb: Vec<Vec<F>> = (0..n).map(|_| (0..n).map(|_| draw(&mut rng)).collect()).collect();
    let ev: Vec<F> = (0..n).map(|_| draw(&mut rng)).collect();
    let a = M::from_fn(|i, j| ea[i][j]);
    let b = M::from_fn(|i, j| eb[i][j]);
    let v = V::from_fn(|i| ev[i]);
    let mut h = H64::new();
    h.s(M::NAME).s(tname);
    for x in ea.iter().flatten().chain(eb.iter().flatten()).chain(ev.iter()) {
        h.f(x.to_f64().unwrap());
    }
    let ctx = format!("a={:?} b={:?} v={:?}", ea, eb, ev);
    let g = |x: F| x.to_f64().unwrap();
    // exact-enough reference: entries are 5-bit mantissas times powers of two, so every product is exact in
    // f64 and the sum of at most 4 of them is evaluated with a sorted (largest magnitude last) summation;
    // bound = sum of |terms|
    let dot = |terms: Vec<f64>| -> (f64, f64) {
        let mut t = terms.clone();
        t.sort_by(|x, y| x.abs().partial_cmp(&y.abs()).unwrap());
        (t.iter().sum::<f64>(), t.iter().map(|x| x.abs()).sum::<f64>())
    };
    let mut fails: Vec<Violation> = Vec::new();
    let judge = |fails: &mut Vec<Violation>, api: String, what: &str, got: f64, terms: Vec<f64>, sub: &mut Sub| {
        let (exact, bound) = dot(terms);
        // f64 subjects: the reference sum itself carries up to 2 eps * bound
        let tol = 8.0 * eps * bound + if f32s { 0.0 } else { 4.0 * f64::EPSILON * bound };
        if !((got - exact).abs() <= tol) {
            fails.push(violation(PROP, sub, &api, tname, "wrong_value", "componentwise_bound", format!("{}: {} = {:e}, the sum of products is {:e} (sum of |terms| {:e}, tolerance {:e})", ctx, what, got, exact, bound, tol), cfg.case_seed(), idx));
        }
    };
    let api_mm = format!("Mul for {}", M::NAME);
    let api_ma = format!("MulAssign for {}", M::NAME);
    let api_mv = format!("Mul<{}> for {}", V::NAME, M::NAME);
    let api_vm = format!("Mul<{}> for {}", M::NAME, V::NAME);
    for api in [&api_mm, &api_ma, &api_mv, &api_vm] {
        sub.saw(api);
    }
    match guarded(|| (a * b, { let mut p = a; p *= b; p }, a * v, v * a)) {
        Err(e) => fails.push(violation(PROP, sub, &api_mm, tname, "panic", "scaled_panics", format!("{}: {}", ctx, e), cfg.case_seed(), idx)),
        Ok((c, ca, mv, vm)) => {
            for i in 0..n {
                for j in 0..n {
                    let terms: Vec<f64> = (0..n).map(|k| g(ea[i][k]) * g(eb[k][j])).collect();
                    judge(&mut fails, api_mm.clone(), &format!("(a*b)({},{})", i, j), g(c.get(i, j)), terms.clone(), sub);
                    judge(&mut fails, api_ma.clone(), &format!("(a*=b)({},{})", i, j), g(ca.get(i, j)), terms, sub);
                }
                judge(&mut fails, api_mv.clone(), &format!("(a*v)[{}]", i), g(mv.get(i)), (0..n).map(|k| g(ea[i][k]) * g(ev[k])).collect(), sub);
                judge(&mut fails, api_vm.clone(), &format!("(v*a)[{}]", i), g(vm.get(i)), (0..n).map(|k| g(ev[k]) * g(ea[k][i])).collect(), sub);
            }
        }
    }
    fails.dedup_by(|x, y| x.sig == y.sig);
    if fails.is_empty() {
        sub.sample(|| format!("{} [{}]: {}", api_mm, tname, ctx));
        sub.held(h.get(), true);
    } else {
        for f in fails {
            sub.violated(f);
        }
    }
}

/// the same for the six Vec4-as-2x2 helpers
fn scaled_mat2<F>(sub: &mut Sub, cfg: &Config, idx: u64)
where
    F: num_traits::Float + num_traits::MulAdd<F, F, Output = F> + std::fmt::Debug + 'static,
{
    let f32s = std::mem::size_of::<F>() == 4;
    let tname = if f32s { "f32" } else { "f64" };
    let eps = if f32s { f32::EPSILON as f64 } else { f64::EPSILON };
    let mut rng = Rng::for_case(&format!("scaled_mat2/{}", tname), cfg.case_seed(), idx);
    let mut draw = |rng: &mut Rng| -> f64 {
        let m = rng.range_i64(-16, 16) as f64 / 8.0;
        let e = if rng.chance(1, 3) { 0 } else { rng.range_i64(-40, 40) as i32 };
        m * 2f64.powi(e)
    };
    let av: [f64; 4] = [draw(&mut rng), draw(&mut rng), draw(&mut rng), draw(&mut rng)];
    let bv: [f64; 4] = [draw(&mut rng), draw(&mut rng), draw(&mut rng), draw(&mut rng)];
    let va = Vec4::<F>::new(F::from(av[0]).unwrap(), F::from(av[1]).unwrap(), F::from(av[2]).unwrap(), F::from(av[3]).unwrap());
    let vb = Vec4::<F>::new(F::from(bv[0]).unwrap(), F::from(bv[1]).unwrap(), F::from(bv[2]).unwrap(), F::from(bv[3]).unwrap());
    type M2 = [[f64; 2]; 2];
    let adj = |a: M2| -> M2 { [[a[1][1], -a[0][1]], [-a[1][0], a[0][0]]] };
    let rows = |v: [f64; 4]| -> M2 { [[v[0], v[1]], [v[2], v[3]]] };
    let cols = |v: [f64; 4]| -> M2 { [[v[0], v[2]], [v[1], v[3]]] };
    type H<F> = fn(Vec4<F>, Vec4<F>) -> Vec4<F>;
    let table: [(&str, H<F>, bool, u8); 6] = [
        ("Vec4::mat2_rows_mul", |a, b| a.mat2_rows_mul(b), true, 0),
        ("Vec4::mat2_rows_adj_mul", |a, b| a.mat2_rows_adj_mul(b), true, 1),
        ("Vec4::mat2_rows_mul_adj", |a, b| a.mat2_rows_mul_adj(b), true, 2),
        ("Vec4::mat2_cols_mul", |a, b| a.mat2_cols_mul(b), false, 0),
        ("Vec4::mat2_cols_adj_mul", |a, b| a.mat2_cols_adj_mul(b), false, 1),
        ("Vec4::mat2_cols_mul_adj", |a, b| a.mat2_cols_mul_adj(b), false, 2),
    ];
    let mut h = H64::new();
    h.s("mat2").s(tname);
    for x in av.iter().chain(bv.iter()) {
        h.f(*x);
    }
    let mut fails: Vec<Violation> = Vec::new();
    for (name, f, is_rows, kind) in table.iter() {
        sub.saw(name);
        let (ma, mb) = if *is_rows { (rows(av), rows(bv)) } else { (cols(av), cols(bv)) };
        let (l, r) = match kind {
            0 => (ma, mb),
            1 => (adj(ma), mb),
            _ => (ma, adj(mb)),
        };
        let got = match guarded(|| f(va, vb)) {
            Ok(g) => g,
            Err(e) => {
                fails.push(violation(PROP, sub, name, tname, "panic", "scaled_panics", format!("a={:?} b={:?}: {}", av, bv, e), cfg.case_seed(), idx));
                continue;
            }
        };
        let gv = [got.x.to_f64().unwrap(), got.y.to_f64().unwrap(), got.z.to_f64().unwrap(), got.w.to_f64().unwrap()];
        for i in 0..2 {
            for j in 0..2 {
                let (t0, t1) = (l[i][0] * r[0][j], l[i][1] * r[1][j]);
                let exact = if t0.abs() < t1.abs() { t0 + t1 } else { t1 + t0 };
                let bound = t0.abs() + t1.abs();
                let tol = 8.0 * eps * bound + if f32s { 0.0 } else { 4.0 * f64::EPSILON * bound };
                let g = if *is_rows { gv[2 * i + j] } else { gv[2 * j + i] };
                if !((g - exact).abs() <= tol) {
                    fails.push(violation(PROP, sub, name, tname, "wrong_value", "componentwise_bound", format!("a={:?} b={:?} (as {} 2x2 matrices): element ({},{}) = {:e}, the 2x2 expression gives {:e} (sum of |terms| {:e}, tolerance {:e})", av, bv, if *is_rows { "row-major" } else { "column-major" }, i, j, g, exact, bound, tol), cfg.case_seed(), idx));
                }
            }
        }
    }
    fails.dedup_by(|x, y| x.sig == y.sig);
    if fails.is_empty() {
        sub.sample(|| format!("mat2 helpers [{}]: a={:?} b={:?}", tname, av, bv));
        sub.held(h.get(), true);
    } else {
        for f in fails {
            sub.violated(f);
        }
    }
}

/// IEEE special values: scalar broadcast, element-wise operators and products on f32/f64 matrices
/// whose entries (and scalars) are drawn from {NaN, +-inf, +-0, small integers}.  Per element the
/// operators must return exactly what the scalar operator returns (inf * 0 is NaN, not 0); a
/// product entry is NaN exactly when the textbook sum of products is (the set of terms decides
/// that, not their order, and a fused multiply-add agrees), and equals it otherwise.  A shortcut
/// keyed on a zero / one / identity operand shows here and nowhere in exact arithmetic.
fn nonfinite<M, V, F>(sub: &mut Sub, cfg: &Config, idx: u64)
where
    F: num_traits::Float + std::fmt::Debug + 'static,
    M: MatX<F, V = V>
        + Copy
        + std::ops::Mul<F, Output = M>
        + std::ops::Div<F, Output = M>
        + std::ops::Add<F, Output = M>
        + std::ops::Sub<F, Output = M>
        + std::ops::Add<M, Output = M>
        + std::ops::Sub<M, Output = M>
        + std::ops::Mul<M, Output = M>
        + std::ops::Mul<V, Output = V>
        + std::ops::MulAssign<F>
        + std::ops::MulAssign<M>,
    V: VecX<F> + Copy + std::ops::Mul<M, Output = V>,
{
    let n = M::N;
    let tname = if std::mem::size_of::<F>() == 4 { "f32" } else { "f64" };
    let mut rng = Rng::for_case(&format!("nonfinite/{}/{}", M::NAME, tname), cfg.case_seed(), idx);
    let special = [f64::NAN, f64::INFINITY, f64::NEG_INFINITY, 0.0, -0.0, 1.0, -1.0, 2.0, -3.0, 0.5];
    let mut draw = |rng: &mut Rng| -> F { F::from(special[rng.usize_below(special.len())]).unwrap() };
    let ea: Vec<Vec<F>> = (0..n).map(|_| (0..n).map(|_| draw(&mut rng)).collect()).collect();
    let eb: Vec<Vec<F>> = (0..n).map(|_| (0..n).map(|_| draw(&mut rng)).collect()).collect();
    let ev: Vec<F> = (0..n).map(|_| draw(&mut rng)).collect();
    let sc = draw(&mut rng);
    let a = M::from_fn(|i, j| ea[i][j]);
    let b = M::from_fn(|i, j| eb[i][j]);
    let v = V::from_fn(|i| ev[i]);
    let same = |x: F, y: F| (x.is_nan() && y.is_nan()) || (x == y && (x != F::zero() || x.is_sign_negative() == y.is_sign_negative()));
    // for sums the sign of a zero depends on the order of accumulation: compare zeros with ==
    let same_sum = |x: F, y: F| (x.is_nan() && y.is_nan()) || x == y;
    let mut h = H64::new();
    h.s(M::NAME).s(tname);
    for x in ea.iter().flatten().chain(eb.iter().flatten()).chain(ev.iter()).chain(std::iter::once(&sc)) {
        h.f(x.to_f64().unwrap());
    }
    let ctx = format!("a={:?} b={:?} v={:?} s={:?}", ea, eb, ev, sc);
    let mut fails: Vec<Violation> = Vec::new();
    macro_rules! per_elem {
        ($api:expr, $got:expr, $exp:expr) => {{
            let api = format!("{} for {}", $api, M::NAME);
            sub.saw(&api);
            match guarded(|| $got) {
                Ok(g) => {
                    for i in 0..n {
                        for j in 0..n {
                            let e: F = $exp(i, j);
                            if !same(g.get(i, j), e) {
                                fails.push(violation(PROP, sub, &api, tname, "wrong_value", "special_values", format!("{}: element ({},{}) = {:?}, the scalar operator gives {:?}", ctx, i, j, g.get(i, j), e), cfg.case_seed(), idx));
                                break;
                            }
                        }
                    }
                }
                Err(e) => fails.push(violation(PROP, sub, &api, tname, "panic", "special_values", format!("{}: panicked: {}", ctx, e), cfg.case_seed(), idx)),
            }
        }};
    }
    per_elem!("Mul<scalar>", a * sc, |i: usize, j: usize| ea[i][j] * sc);
    per_elem!("MulAssign<scalar>", { let mut m = a; m *= sc; m }, |i: usize, j: usize| ea[i][j] * sc);
    per_elem!("Div<scalar>", a / sc, |i: usize, j: usize| ea[i][j] / sc);
    per_elem!("Add<scalar>", a + sc, |i: usize, j: usize| ea[i][j] + sc);
    per_elem!("Sub<scalar>", a - sc, |i: usize, j: usize| ea[i][j] - sc);
    per_elem!("Add", a + b, |i: usize, j: usize| ea[i][j] + eb[i][j]);
    per_elem!("Sub", a - b, |i: usize, j: usize| ea[i][j] - eb[i][j]);
    // products: textbook sums
    let dot = |f: &dyn Fn(usize) -> (F, F)| -> F {
        let mut s = F::zero();
        for k in 0..n {
            let (x, y) = f(k);
            s = s + x * y;
        }
        s
    };
    macro_rules! product {
        ($api:expr, $got:expr, $m:expr) => {{
            let api = format!("{} for {}", $api, M::NAME);
            sub.saw(&api);
            match guarded(|| $got) {
                Ok(g) => {
                    for i in 0..n {
                        for j in 0..n {
                            let e = dot(&|k| (ea[i][k], eb[k][j]));
                            if !same_sum($m(&g, i, j), e) {
                                fails.push(violation(PROP, sub, &api, tname, "wrong_value", "special_values", format!("{}: element ({},{}) = {:?}, the sum of products is {:?}", ctx, i, j, $m(&g, i, j), e), cfg.case_seed(), idx));
                                break;
                            }
                        }
                    }
                }
                Err(e) => fails.push(violation(PROP, sub, &api, tname, "panic", "special_values", format!("{}: panicked: {}", ctx, e), cfg.case_seed(), idx)),
            }
        }};
    }
    product!("Mul", a * b, |g: &M, i: usize, j: usize| g.get(i, j));
    product!("MulAssign", { let mut m = a; m *= b; m }, |g: &M, i: usize, j: usize| g.get(i, j));
    {
        let api = format!("Mul<{}> for {}", V::NAME, M::NAME);
        sub.saw(&api);
        match guarded(|| a * v) {
            Ok(g) => {
                for i in 0..n {
                    let e = dot(&|k| (ea[i][k], ev[k]));
                    if !same_sum(g.get(i), e) {
                        fails.push(violation(PROP, sub, &api, tname, "wrong_value", "special_values", format!("{}: (a*v)[{}] = {:?}, the sum of products is {:?}", ctx, i, g.get(i), e), cfg.case_seed(), idx));
                        break;
                    }
                }
            }
            Err(e) => fails.push(violation(PROP, sub, &api, tname, "panic", "special_values", format!("{}: panicked: {}", ctx, e), cfg.case_seed(), idx)),
        }
        let api = format!("Mul<{}> for {}", M::NAME, V::NAME);
        sub.saw(&api);
        match guarded(|| v * a) {
            Ok(g) => {
                for j in 0..n {
                    let e = dot(&|k| (ev[k], ea[k][j]));
                    if !same_sum(g.get(j), e) {
                        fails.push(violation(PROP, sub, &api, tname, "wrong_value", "special_values", format!("{}: (v*a)[{}] = {:?}, the sum of products is {:?}", ctx, j, g.get(j), e), cfg.case_seed(), idx));
                        break;
                    }
                }
            }
            Err(e) => fails.push(violation(PROP, sub, &api, tname, "panic", "special_values", format!("{}: panicked: {}", ctx, e), cfg.case_seed(), idx)),
        }
    }
    if fails.is_empty() {
        sub.sample(|| format!("{} [{}]: {} -> a*s row 0 = {:?}", M::NAME, tname, ctx, (0..n).map(|j| (a * sc).get(0, j)).collect::<Vec<_>>()));
        sub.held(h.get(), true);
    } else {
        for v in fails {
            sub.violated(v);
        }
    }
}

/// matrices over a product ring: the element type is itself a vek vector (element-wise + and *),
/// a legitimate commutative ring; matrix*matrix, matrix*vector and vector*matrix must be the sums
/// of products per lane of the element
macro_rules! ring_case {
    ($sub:expr, $cfg:expr, $idx:expr, $M:ident, $MV:ident, $E:ident, $lanes:expr, $name:expr) => {{
        type E = $E<i64>;
        let n = <$M<E> as MatX<E>>::N;
        let mut rng = Rng::for_case(concat!("product_ring/", $name), $cfg.case_seed(), $idx);
        let mut h = H64::new();
        h.s($name);
        let mut gen = |rng: &mut Rng, h: &mut H64| -> Vec<i64> { (0..$lanes).map(|_| { let x = rng.range_i64(-9, 9); h.i(x as i128); x }).collect() };
        let ea: Vec<Vec<Vec<i64>>> = (0..n).map(|_| (0..n).map(|_| gen(&mut rng, &mut h)).collect()).collect();
        let eb: Vec<Vec<Vec<i64>>> = (0..n).map(|_| (0..n).map(|_| gen(&mut rng, &mut h)).collect()).collect();
        let ev: Vec<Vec<i64>> = (0..n).map(|_| gen(&mut rng, &mut h)).collect();
        let el = |l: &Vec<i64>| -> E { <E as VecX<i64>>::from_fn(|k| l[k]) };
        let a = <$M<E> as MatX<E>>::from_fn(|i, j| el(&ea[i][j]));
        let b = <$M<E> as MatX<E>>::from_fn(|i, j| el(&eb[i][j]));
        let v = <$MV<E> as VecX<E>>::from_fn(|i| el(&ev[i]));
        let api = format!("Mul for {}<{}<i64>>", $name, stringify!($E));
        $sub.saw(&api);
        match guarded(|| (a * b, a * v, v * a)) {
            Err(e) => {
                let vio = violation(PROP, $sub, &api, "product ring", "panic", $name, format!("a={:?} b={:?}: {}", ea, eb, e), $cfg.case_seed(), $idx);
                $sub.violated(vio);
            }
            Ok((c, mv, vm)) => {
                let mut bad = None;
                'outer: for i in 0..n {
                    for l in 0..$lanes {
                        let (mut s1, mut s2) = (0i64, 0i64);
                        for k in 0..n {
                            s1 += ea[i][k][l] * ev[k][l];
                            s2 += ev[k][l] * ea[k][i][l];
                        }
                        if *mv.at(i).at(l) != s1 { bad = Some(format!("(a*v)[{}] lane {} = {}, expected {}", i, l, mv.at(i).at(l), s1)); break 'outer; }
                        if *vm.at(i).at(l) != s2 { bad = Some(format!("(v*a)[{}] lane {} = {}, expected {}", i, l, vm.at(i).at(l), s2)); break 'outer; }
                        for j in 0..n {
                            let mut s = 0i64;
                            for k in 0..n {
                                s += ea[i][k][l] * eb[k][j][l];
                            }
                            if *c.at(i, j).at(l) != s { bad = Some(format!("(a*b)({},{}) lane {} = {}, expected {}", i, j, l, c.at(i, j).at(l), s)); break 'outer; }
                        }
                    }
                }
                match bad {
                    None => { $sub.sample(|| format!("{}: a={:?} b={:?}: products are the per-lane sums of products", api, ea, eb)); $sub.held(h.get(), true); }
                    Some(msg) => { let vio = violation(PROP, $sub, &api, "product ring", "wrong_value", $name, format!("a={:?} b={:?} v={:?}: {}", ea, eb, ev, msg), $cfg.case_seed(), $idx); $sub.violated(vio); }
                }
            }
        }
    }};
}

fn main() {
    let cfg = Config::from_args(PROP);
    let mut rep = Report::new(cfg.clone());
    {
        let nr = cfg.n(200, 20_000);
        let proto = Sub::new("product_ring", "matrices whose element type is a vek vector (Vec2<i64>, Vec3<i64>: the product ring with element-wise + and *), small random entries, Mat2/3/4 in both layouts: a*b, a*v and v*a must be the sums of products in every lane of the element; distinct by hash of all entries").with_floor(nr * 4);
        let s = run_cases(&cfg, proto, nr, |s, i| {
            ring_case!(s, &cfg, i, Rows2, Vec2, Vec2, 2, "Rows2");
            ring_case!(s, &cfg, i, Cols2, Vec2, Vec2, 2, "Cols2");
            ring_case!(s, &cfg, i, Rows3, Vec3, Vec2, 2, "Rows3");
            ring_case!(s, &cfg, i, Cols3, Vec3, Vec3, 3, "Cols3");
            ring_case!(s, &cfg, i, Rows4, Vec4, Vec3, 3, "Rows4");
            ring_case!(s, &cfg, i, Cols4, Vec4, Vec2, 2, "Cols4");
        });
        rep.push(s);
    }

    // ---- trace sub-checks: one traced execution per (shape, form); deterministic
    {
        let mut s = Sub::new("mm_trace", "one Sym-traced execution of every matrix*matrix impl (3 sizes x 4 layout pairs, plus one operand = identity); each of the N*N logged output expressions is compared with sum_k a_ik*b_kj by polynomial identity testing at 6 random points of GF(2^61-1); distinct = distinct (impl, case) pairs")
            .with_floor(24);
        if cfg.wants("mm_trace") {
            macro_rules! go { ($($A:ident * $B:ident = $C:ident),+) => {$( mm_trace::<$A<Sym>, $B<Sym>, $C<Sym>>(&mut s, &cfg, 0); )+} }
            go!(Rows2 * Rows2 = Rows2, Cols2 * Cols2 = Cols2, Rows2 * Cols2 = Cols2, Cols2 * Rows2 = Rows2,
                Rows3 * Rows3 = Rows3, Cols3 * Cols3 = Cols3, Rows3 * Cols3 = Cols3, Cols3 * Rows3 = Rows3,
                Rows4 * Rows4 = Rows4, Cols4 * Cols4 = Cols4, Rows4 * Cols4 = Cols4, Cols4 * Rows4 = Rows4);
        }
        rep.push(s);
    }
    {
        let mut s = Sub::new("mv_trace", "Sym-traced matrix*column-vector and row-vector*matrix for 3 sizes x 2 layouts; PIT against sum_k m_ik v_k / sum_k v_k m_kj").with_floor(12);
        if cfg.wants("mv_trace") {
            mv_trace::<Rows2<Sym>, Vec2<Sym>>(&mut s, &cfg, 0);
            mv_trace::<Cols2<Sym>, Vec2<Sym>>(&mut s, &cfg, 0);
            mv_trace::<Rows3<Sym>, Vec3<Sym>>(&mut s, &cfg, 0);
            mv_trace::<Cols3<Sym>, Vec3<Sym>>(&mut s, &cfg, 0);
            mv_trace::<Rows4<Sym>, Vec4<Sym>>(&mut s, &cfg, 0);
            mv_trace::<Cols4<Sym>, Vec4<Sym>>(&mut s, &cfg, 0);
        }
        rep.push(s);
    }
    {
        let mut s = Sub::new("elementwise_trace", "Sym-traced element-wise operators (+ - / % and *Assign, matrix and scalar operand, Neg, mul_memberwise, MulAssign, identity/zero/One/Default): each output element must be exactly Op(a_ij, b_ij) (structural), MulAssign the product (PIT)").with_floor(100);
        if cfg.wants("elementwise_trace") {
            elementwise_trace::<Rows2<Sym>>(&mut s, &cfg, 0);
            elementwise_trace::<Cols2<Sym>>(&mut s, &cfg, 0);
            elementwise_trace::<Rows3<Sym>>(&mut s, &cfg, 0);
            elementwise_trace::<Cols3<Sym>>(&mut s, &cfg, 0);
            elementwise_trace::<Rows4<Sym>>(&mut s, &cfg, 0);
            elementwise_trace::<Cols4<Sym>>(&mut s, &cfg, 0);
            memberwise_and_consts!(&mut s, &cfg, 0, Rows2, Cols2, Rows3, Cols3, Rows4, Cols4);
        }
        rep.push(s);
    }
    {
        let mut s = Sub::new("mat2_helpers_trace", "Sym-traced Vec4-as-2x2 helpers (plain, adj*B, A*adj, rows and cols flavour) vs the 2x2 matrix expressions, PIT in 8 symbols")
            .with_floor(6)
            .require(&["Vec4::mat2_rows_mul", "Vec4::mat2_rows_adj_mul", "Vec4::mat2_rows_mul_adj", "Vec4::mat2_cols_mul", "Vec4::mat2_cols_adj_mul", "Vec4::mat2_cols_mul_adj"]);
        if cfg.wants("mat2_helpers_trace") {
            mat2_helpers(&mut s, &cfg, 0);
        }
        rep.push(s);
    }

    // ---- value sub-checks
    let nq = cfg.n(300, 20_000);
    {
        let proto = Sub::new("values_q", "random boundary-biased exact rational matrices (entries 0, +-1, small integers, small fractions) through every matrix*matrix, matrix*vector and vector*matrix impl, compared exactly with a naive triple loop; non-trivial = fewer than half of the entries zero; distinct by hash of all entries").with_floor(nq / 2);
        let s = run_cases(&cfg, proto, nq, |s, i| {
            macro_rules! go { ($($A:ident * $B:ident = $C:ident),+) => {$( values_mm::<$A<Q>, $B<Q>, $C<Q>, Q>(s, &cfg, i, "Q"); )+} }
            go!(Rows2 * Rows2 = Rows2, Cols2 * Cols2 = Cols2, Rows2 * Cols2 = Cols2, Cols2 * Rows2 = Rows2,
                Rows3 * Rows3 = Rows3, Cols3 * Cols3 = Cols3, Rows3 * Cols3 = Cols3, Cols3 * Rows3 = Rows3,
                Rows4 * Rows4 = Rows4, Cols4 * Cols4 = Cols4, Rows4 * Cols4 = Cols4, Cols4 * Rows4 = Rows4);
            values_mv::<Rows2<Q>, Vec2<Q>, Q>(s, &cfg, i, "Q");
            values_mv::<Cols2<Q>, Vec2<Q>, Q>(s, &cfg, i, "Q");
            values_mv::<Rows3<Q>, Vec3<Q>, Q>(s, &cfg, i, "Q");
            values_mv::<Cols3<Q>, Vec3<Q>, Q>(s, &cfg, i, "Q");
            values_mv::<Rows4<Q>, Vec4<Q>, Q>(s, &cfg, i, "Q");
            values_mv::<Cols4<Q>, Vec4<Q>, Q>(s, &cfg, i, "Q");
        });
        rep.push(s);
    }
    {
        let proto = Sub::new("values_native", "random i64 matrices and short-dyadic f64 matrices (entries k/8, k/4: every product and partial sum exactly representable, so fused and unfused accumulation agree) through Mul, compared exactly").with_floor(nq / 2);
        let s = run_cases(&cfg, proto, nq, |s, i| {
            native_mm::<Rows2<i64>, Rows2<f64>>(s, &cfg, i);
            native_mm::<Cols2<i64>, Cols2<f64>>(s, &cfg, i);
            native_mm::<Rows3<i64>, Rows3<f64>>(s, &cfg, i);
            native_mm::<Cols3<i64>, Cols3<f64>>(s, &cfg, i);
            native_mm::<Rows4<i64>, Rows4<f64>>(s, &cfg, i);
            native_mm::<Cols4<i64>, Cols4<f64>>(s, &cfg, i);
        });
        rep.push(s);
    }
    {
        let proto = Sub::new("values_nonfinite", "f32 and f64 matrices (2/3/4, both layouts) with entries and scalars drawn from {NaN, +-inf, +-0, +-1, 2, -3, 1/2}: M*s, M*=s, M/s, M+s, M-s, M+M, M-M per element exactly what the scalar operator returns (sign of zero included); M*M, M*=M, M*v, v*M: NaN exactly when the textbook sum of products is NaN, equal to it otherwise").with_floor(nq / 2);
        let s = run_cases(&cfg, proto, nq, |s, i| {
            nonfinite::<Rows2<f32>, Vec2<f32>, f32>(s, &cfg, i);
            nonfinite::<Cols2<f32>, Vec2<f32>, f32>(s, &cfg, i);
            nonfinite::<Rows3<f64>, Vec3<f64>, f64>(s, &cfg, i);
            nonfinite::<Cols3<f64>, Vec3<f64>, f64>(s, &cfg, i);
            nonfinite::<Rows4<f32>, Vec4<f32>, f32>(s, &cfg, i);
            nonfinite::<Cols4<f32>, Vec4<f32>, f32>(s, &cfg, i);
            nonfinite::<Rows4<f64>, Vec4<f64>, f64>(s, &cfg, i);
            nonfinite::<Cols4<f64>, Vec4<f64>, f64>(s, &cfg, i);
            nonfinite::<Rows2<f64>, Vec2<f64>, f64>(s, &cfg, i);
            nonfinite::<Cols2<f64>, Vec2<f64>, f64>(s, &cfg, i);
            nonfinite::<Rows3<f32>, Vec3<f32>, f32>(s, &cfg, i);
            nonfinite::<Cols3<f32>, Vec3<f32>, f32>(s, &cfg, i);
        });
        rep.push(s);
    }
    {
        let proto = Sub::new("values_scaled_float", "f32 and f64 matrices, vectors and Vec4-as-2x2 operands whose entries are m*2^e with an exponent of their own in -40..40 (badly scaled): every element of M*M, M*=M, M*v, v*M (2/3/4, both layouts) and of the six mat2_* helpers within the componentwise bound 8 eps * sum |a_ik||b_kj| of the defining sum of products").with_floor(nq / 2);
        let s = run_cases(&cfg, proto, nq, |s, i| {
            scaled::<Rows2<f32>, Vec2<f32>, f32>(s, &cfg, i);
            scaled::<Cols2<f32>, Vec2<f32>, f32>(s, &cfg, i);
            scaled::<Rows3<f64>, Vec3<f64>, f64>(s, &cfg, i);
            scaled::<Cols3<f64>, Vec3<f64>, f64>(s, &cfg, i);
            scaled::<Rows4<f32>, Vec4<f32>, f32>(s, &cfg, i);
            scaled::<Cols4<f32>, Vec4<f32>, f32>(s, &cfg, i);
            scaled::<Rows4<f64>, Vec4<f64>, f64>(s, &cfg, i);
            scaled::<Cols4<f64>, Vec4<f64>, f64>(s, &cfg, i);
            scaled::<Rows2<f64>, Vec2<f64>, f64>(s, &cfg, i);
            scaled::<Cols2<f64>, Vec2<f64>, f64>(s, &cfg, i);
            scaled::<Rows3<f32>, Vec3<f32>, f32>(s, &cfg, i);
            scaled::<Cols3<f32>, Vec3<f32>, f32>(s, &cfg, i);
            scaled_mat2::<f32>(s, &cfg, i);
            scaled_mat2::<f64>(s, &cfg, i);
        });
        rep.push(s);
    }
    let _ = (matvec::<2, Q>, I64w(0), F64d(0.0));
    std::process::exit(rep.finish());
}

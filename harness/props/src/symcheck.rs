//! Glue between the `Sym` operation log and sub-check accounting.

use monitors::fp::Fp;
use monitors::prng::{hash_str, Rng};
use monitors::report::{take_poison, Sub, Violation};
use monitors::sym::{exact_witness, pit, PitResult, Sym};

pub const PIT_POINTS: usize = 6;

/// Build a violation record.
pub fn violation(prop: &str, sub: &Sub, api: &str, ty: &str, class: &str, what: &str, detail: String, seed: u64, index: u64) -> Violation {
    Violation {
        sub: sub.name.clone(),
        api: api.to_string(),
        ty: ty.to_string(),
        class: class.to_string(),
        sig: format!("{}|{}|{}|{}|{}", prop, api, ty, class, what),
        detail,
        case_seed: seed,
        case_index: index,
    }
}

/// Decide one traced execution: `outputs` (handles produced by vek) must equal
/// `reference` as polynomials/rational functions in the `nvars` free symbols.
/// Returns true if the case held.
#[allow(clippy::too_many_arguments)]
pub fn decide_pit(
    prop: &str,
    sub: &mut Sub,
    api: &str,
    ty: &str,
    case_name: &str,
    outputs: &[Sym],
    nvars: usize,
    seed: u64,
    index: u64,
    reference: &dyn Fn(&dyn Fn(u32) -> Fp) -> Vec<Fp>,
) -> bool {
    sub.saw(api);
    if let Some(p) = take_poison() {
        sub.inconclusive(&format!("poison:{}", p));
        return false;
    }
    let mut rng = Rng::for_case(case_name, seed, index);
    let h = monitors::prng::mix2(monitors::prng::mix2(hash_str(case_name), hash_str(ty)), hash_str(api));
    match pit(outputs, nvars, &mut rng, PIT_POINTS, reference) {
        PitResult::Equal { .. } => {
            sub.sample(|| format!("{} [{}] {}: {} outputs, first = {}", api, ty, case_name, outputs.len(), clip(&outputs[0].render(), 160)));
            sub.held(h, true);
            true
        }
        PitResult::Differ { index: oi, .. } => {
            let wit = exact_witness(outputs[oi], nvars, &mut rng);
            let _ = take_poison();
            let detail = format!(
                "{} [{}] {}: output #{} is not the expected expression; logged expression = {}; {}",
                api,
                ty,
                case_name,
                oi,
                clip(&outputs[oi].render(), 400),
                match wit {
                    Some((vals, v)) => format!("with symbols v0.. = {:?} vek computes {}", vals, v),
                    None => "no small exact witness computed".to_string(),
                }
            );
            sub.violated(violation(prop, sub, api, ty, "wrong_value", case_name, detail, seed, index));
            false
        }
        PitResult::Undefined { index: oi } => {
            sub.inconclusive("pit_undefined");
            let _ = oi;
            false
        }
    }
}

/// Structural decision: every output must be *exactly* the expected node.
#[allow(clippy::too_many_arguments)]
pub fn decide_structural(prop: &str, sub: &mut Sub, api: &str, ty: &str, case_name: &str, outputs: &[Sym], expected: &[Sym], seed: u64, index: u64) -> bool {
    sub.saw(api);
    if let Some(p) = take_poison() {
        sub.inconclusive(&format!("poison:{}", p));
        return false;
    }
    let h = monitors::prng::mix2(monitors::prng::mix2(hash_str(case_name), hash_str(ty)), hash_str(api));
    if outputs.len() != expected.len() {
        let detail = format!("{} [{}] {}: {} outputs, expected {}", api, ty, case_name, outputs.len(), expected.len());
        sub.violated(violation(prop, sub, api, ty, "wrong_value", case_name, detail, seed, index));
        return false;
    }
    for (i, (o, e)) in outputs.iter().zip(expected.iter()).enumerate() {
        if o != e {
            let detail = format!(
                "{} [{}] {}: output #{} is {} but the per-element definition gives {}",
                api,
                ty,
                case_name,
                i,
                clip(&o.render(), 300),
                clip(&e.render(), 300)
            );
            sub.violated(violation(prop, sub, api, ty, "wrong_value", case_name, detail, seed, index));
            return false;
        }
    }
    sub.sample(|| format!("{} [{}] {}: out[0] = {}", api, ty, case_name, clip(&outputs[0].render(), 160)));
    sub.held(h, true);
    true
}

pub fn clip(s: &str, n: usize) -> String {
    if s.len() <= n {
        s.to_string()
    } else {
        let mut e = n;
        while !s.is_char_boundary(e) {
            e -= 1;
        }
        format!("{}…", &s[..e])
    }
}

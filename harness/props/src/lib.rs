//! Shared helpers for the per-property monitor binaries.
pub mod matx;
pub mod vecx;
pub use matx::*;
pub use vecx::VecX;
pub mod symcheck;
pub use symcheck::*;

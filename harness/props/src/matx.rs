//! Uniform access to vek's six matrix types through their documented public representation
//! (`m.rows.<i>.<j>` for row-major, `m.cols.<j>.<i>` for column-major).  Ground truth for
//! "which element is (i,j)" in every oracle; never uses vek's own `Index`/`new`/iteration.

use crate::vecx::VecX;
use vek::mat::repr_c::column_major as cm;
use vek::mat::repr_c::row_major as rm;
use vek::vec::repr_c::{Vec2, Vec3, Vec4};

pub trait MatX<T>: Sized {
    const N: usize;
    const ROW_MAJOR: bool;
    const NAME: &'static str;
    /// the vector type of a row/column
    type V: VecX<T>;
    /// build the matrix whose abstract element (i,j) is f(i,j)
    fn from_fn(f: impl FnMut(usize, usize) -> T) -> Self;
    fn at(&self, i: usize, j: usize) -> &T;
    fn at_mut(&mut self, i: usize, j: usize) -> &mut T;
    /// all elements in abstract row-major order (i major)
    fn into_elems(self) -> Vec<T>;
    fn get(&self, i: usize, j: usize) -> T
    where
        T: Copy,
    {
        *self.at(i, j)
    }
    fn to_rows(&self) -> Vec<Vec<T>>
    where
        T: Copy,
    {
        (0..Self::N).map(|i| (0..Self::N).map(|j| *self.at(i, j)).collect()).collect()
    }
}

macro_rules! impl_matx {
    ($modp:ident, $Mat:ident, $Vec:ident, $n:expr, $lines:ident, $row_major:expr, $name:expr) => {
        impl<T> MatX<T> for $modp::$Mat<T> {
            const N: usize = $n;
            const ROW_MAJOR: bool = $row_major;
            const NAME: &'static str = $name;
            type V = $Vec<T>;
            fn from_fn(mut f: impl FnMut(usize, usize) -> T) -> Self {
                // collect in abstract order, then place through the raw fields
                let mut elems: Vec<Option<T>> = Vec::with_capacity($n * $n);
                for i in 0..$n {
                    for j in 0..$n {
                        elems.push(Some(f(i, j)));
                    }
                }
                let lines = <$Vec<$Vec<T>> as VecX<$Vec<T>>>::from_fn(|l| {
                    <$Vec<T> as VecX<T>>::from_fn(|k| {
                        let (i, j) = if $row_major { (l, k) } else { (k, l) };
                        elems[i * $n + j].take().unwrap()
                    })
                });
                $modp::$Mat { $lines: lines }
            }
            fn at(&self, i: usize, j: usize) -> &T {
                let (l, k) = if $row_major { (i, j) } else { (j, i) };
                VecX::at(VecX::at(&self.$lines, l), k)
            }
            fn at_mut(&mut self, i: usize, j: usize) -> &mut T {
                let (l, k) = if $row_major { (i, j) } else { (j, i) };
                VecX::at_mut(VecX::at_mut(&mut self.$lines, l), k)
            }
            fn into_elems(self) -> Vec<T> {
                let lines: Vec<$Vec<T>> = VecX::into_fields(self.$lines);
                let mut grid: Vec<Vec<Option<T>>> =
                    lines.into_iter().map(|l| VecX::into_fields(l).into_iter().map(Some).collect()).collect();
                let mut out = Vec::with_capacity($n * $n);
                for i in 0..$n {
                    for j in 0..$n {
                        let (l, k) = if $row_major { (i, j) } else { (j, i) };
                        out.push(grid[l][k].take().unwrap());
                    }
                }
                out
            }
        }
    };
}

impl_matx!(rm, Mat2, Vec2, 2, rows, true, "Rows2");
impl_matx!(rm, Mat3, Vec3, 3, rows, true, "Rows3");
impl_matx!(rm, Mat4, Vec4, 4, rows, true, "Rows4");
impl_matx!(cm, Mat2, Vec2, 2, cols, false, "Cols2");
impl_matx!(cm, Mat3, Vec3, 3, cols, false, "Cols3");
impl_matx!(cm, Mat4, Vec4, 4, cols, false, "Cols4");

pub type Rows2<T> = rm::Mat2<T>;
pub type Rows3<T> = rm::Mat3<T>;
pub type Rows4<T> = rm::Mat4<T>;
pub type Cols2<T> = cm::Mat2<T>;
pub type Cols3<T> = cm::Mat3<T>;
pub type Cols4<T> = cm::Mat4<T>;

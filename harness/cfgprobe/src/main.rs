//! C20 configuration probe.  Built and run once per feature configuration of vek.
//!
//! `base_digest`: a fixed workload over the API that exists in *every* configuration
//! (Vec2/3/4, Extent2/3, Mat2/3/4 in both layouts, Quaternion, Transform, geometry, Bezier,
//! ops).  Enabling a feature must not change it.  `feature_lines`: one line per enabled feature
//! from a small workload over the items that feature adds (so the items exist and work in
//! this particular combination).
#![allow(unused_imports, unused_mut, unused_variables)]

use vek::*;

mod wide;

struct Fnv(u64);
impl Fnv {
    fn put(&mut self, s: &str) {
        for b in s.bytes() {
            self.0 ^= b as u64;
            self.0 = self.0.wrapping_mul(0x100000001b3);
        }
        self.0 ^= 0xff;
        self.0 = self.0.wrapping_mul(0x100000001b3);
    }
}

fn base() -> (u64, usize) {
    let mut h = Fnv(0xcbf29ce484222325);
    let mut n = 0usize;
    macro_rules! put {
        ($e:expr) => {{
            h.put(&format!("{:?}", $e));
            n += 1;
        }};
    }
    // vectors
    let a = Vec3::new(1.5f32, -2.0, 0.25);
    let b = Vec3::new(0.5f32, 4.0, -1.0);
    put!(a + b); put!(a - b); put!(a * b); put!(a / b); put!(-a); put!(a * 2.0); put!(a.dot(b)); put!(a.cross(b));
    put!(a.magnitude_squared()); put!(a.distance_squared(b)); put!(a.sum()); put!(a.product()); put!(a.reduce_partial_max());
    put!(Vec3::lerp(a, b, 0.25f32)); put!(a.map(|x| x as i32)); put!(a.reflected(Vec3::unit_y())); put!(Vec3::<f32>::unit_x());
    put!(Vec2::new(3i32, -4).yx()); put!(Vec4::new(1u8, 2, 3, 4).wzyx()); put!(Vec4::<i32>::iota()); put!(Vec2::<i64>::broadcast(7));
    put!(Vec4::new(1i32, 2, 3, 4).shuffled((3, 2, 1, 0))); put!(Vec3::<i16>::from(Vec4::new(1i16, 2, 3, 4))); put!(Vec4::<i8>::from_point(Vec3::<i8>::new(1, 2, 3)));
    put!(Extent2::new(3u32, 4).product()); put!(Extent3::new(1i32, 2, 3) + 1); put!(Vec2::<u16>::from(Extent2::new(5u16, 6)));
    put!(Vec3::new(1i32, 5, -3).clamped(Vec3::zero(), Vec3::broadcast(2))); put!(Vec3::new(true, false, true).reduce_and());
    put!(Vec4::new(1i32, 2, 3, 4).into_array()); put!(Vec3::<i32>::from([7, 8, 9]).into_tuple()); put!(Vec2::new(1u8, 2).into_iter().rev().collect::<Vec2<u8>>());
    put!(Vec4::new(1.0f64, 2.0, 3.0, 4.0).partial_cmpgt(&Vec4::broadcast(2.5))); put!(Vec4::new(1i32, 2, 3, 4).cmpgt(&Vec4::broadcast(2))); put!(Vec3::new(9i32, 8, 7).as_slice());
    put!(Vec4::new(1i32, 2, 3, 4).hadd(Vec4::new(5, 6, 7, 8))); put!(Vec2::new(7i32, -7).wrapped(Vec2::new(5, 5)));
    // numeric lifts
    {
        use vek::num_traits::{CheckedAdd, CheckedMul, WrappingAdd, SaturatingSub, Zero, One};
        put!(Vec3::new(250u8, 1, 2).checked_add(&Vec3::new(5, 1, 1))); put!(Vec3::new(250u8, 1, 2).checked_add(&Vec3::new(6, 1, 1)));
        put!(Vec2::new(100i8, 2).checked_mul(&Vec2::new(2, 2))); put!(Vec4::new(250u8, 1, 2, 3).wrapping_add(&Vec4::broadcast(10)));
        put!(Vec2::new(3u8, 200).saturating_sub(&Vec2::new(5, 100))); put!(Vec3::<i32>::zero().is_zero()); put!(Mat2::<i32>::one());
        put!(Vec3::new(1.9f32, -1.9, 300.0).as_::<u8>()); put!(Vec3::new(1.0f32, 2.0, 300.0).numcast::<u8>()); put!(Vec3::new(1.0f32, 2.0, 3.0).numcast::<u8>());
    }
    // matrices
    let m = Mat4::<f32>::translation_3d(Vec3::new(1.0, 2.0, 3.0)) * Mat4::scaling_3d(Vec3::new(2.0, 0.5, 4.0));
    put!(m); put!(m * Vec4::new(1.0, 1.0, 1.0, 1.0)); put!(m.transposed()); put!(m.determinant()); put!(m.inverted()); put!(m.mul_point(Vec3::new(1.0, 1.0, 1.0)));
    let r = vek::mat::repr_c::row_major::Mat3::<i32>::new(1, 2, 3, 4, 5, 6, 7, 8, 10);
    let c = vek::mat::repr_c::column_major::Mat3::<i32>::from(r);
    put!(r * r); put!(c * c); put!(r.determinant()); put!(c.into_row_array()); put!(r.into_col_arrays()); put!(r[(1, 2)]); put!(c[(1, 2)]); put!(Mat2::new(1i32, 2, 3, 4).transposed());
    put!(format!("{}", r)); put!(Mat4::<f64>::orthographic_rh_no(FrustumPlanes { left: -1.0, right: 3.0, bottom: -2.0, top: 2.0, near: 0.5, far: 10.0 }));
    put!(Mat4::<f64>::frustum_lh_zo(FrustumPlanes { left: -1.0, right: 3.0, bottom: -2.0, top: 2.0, near: 0.5, far: 10.0 }));
    put!(Mat2::<f32>::shearing_x(0.5)); put!(Mat4::<f64>::identity().is_packed()); put!(Mat3::<i32>::from(Mat4::<i32>::identity()));
    put!(vek::approx::AbsDiffEq::abs_diff_eq(&m, &m, 0.0)); put!(vek::approx::relative_eq!(Vec3::new(1.0f32, 2.0, 3.0), Vec3::new(1.0, 2.0, 3.0000002)));
    // quaternions, transforms (no transcendental functions: std and libm may round them differently)
    let q = Quaternion::from_xyzw(0.5f32, 0.5, 0.5, 0.5);
    put!(q * q); put!(q.conjugate()); put!(q * Vec3::new(1.0, 0.0, 0.0)); put!(Mat4::from(q)); put!(q.dot(q)); put!(Quaternion::<f32>::identity().inverse());
    put!(Mat4::from(Transform { position: Vec3::new(1.0f32, 2.0, 3.0), orientation: q, scale: Vec3::new(2.0, 3.0, 4.0) }));
    // geometry
    let bx = Aabr { min: Vec2::new(0i32, 0), max: Vec2::new(4, 3) };
    put!(bx.contains_point(Vec2::new(4, 3))); put!(bx.union(Aabr { min: Vec2::new(-1, 1), max: Vec2::new(2, 8) })); put!(bx.intersection(Aabr { min: Vec2::new(2, 1), max: Vec2::new(9, 2) }));
    put!(bx.into_rect()); put!(Rect::new(1i32, 2, 3, 4).into_aabr()); put!(bx.collides_with_aabr(Aabr { min: Vec2::new(4, 0), max: Vec2::new(5, 1) })); put!(bx.center()); put!(bx.size());
    put!(Aabb { min: Vec3::new(0.0f32, 0.0, 0.0), max: Vec3::new(1.0, 2.0, 3.0) }.projected_point(Vec3::new(5.0, -1.0, 1.0)));
    put!(Disk::new(Vec2::new(0.0f32, 0.0), 2.0).contains_point(Vec2::new(1.0, 1.0))); put!(Sphere::new(Vec3::new(0.0f32, 0.0, 0.0), 1.0).collides_with_sphere(Sphere::new(Vec3::new(2.0, 0.0, 0.0), 1.0)));
    put!(Ray::new(Vec3::new(0.25f32, 0.25, -1.0), Vec3::new(0.0, 0.0, 1.0)).triangle_intersection([Vec3::new(0.0, 0.0, 0.0), Vec3::new(1.0, 0.0, 0.0), Vec3::new(0.0, 1.0, 0.0)]));
    put!(LineSegment2 { start: Vec2::new(0.0f32, 0.0), end: Vec2::new(4.0, 0.0) }.projected_point(Vec2::new(1.0, 3.0)));
    // bezier
    let cb = CubicBezier2 { start: Vec2::new(0.0f32, 0.0), ctrl0: Vec2::new(1.0, 2.0), ctrl1: Vec2::new(3.0, -2.0), end: Vec2::new(4.0, 0.0) };
    put!(cb.evaluate(0.25)); put!(cb.evaluate_derivative(0.5)); put!(cb.split(0.5)); put!(cb.aabr()); put!(cb.x_bounds()); put!(cb.reversed());
    put!(QuadraticBezier3 { start: Vec3::new(0.0f32, 0.0, 0.0), ctrl: Vec3::new(1.0, 2.0, 3.0), end: Vec3::new(2.0, 0.0, -1.0) }.into_cubic());
    // ops
    put!(Lerp::lerp(10u8, 20u8, 0.5f32)); put!(<f32 as Lerp<f32>>::lerp_unclamped_precise(1.0, 3.0, 2.0)); put!(5i32.clamped(0, 3)); put!((-3i32).wrapped(5)); put!(7i32.pingpong(5)); put!(3i32.is_between(1, 3));
    put!(LinearTransition::<i32, f32>::with_mapper_and_progress(10, 20, IdentityProgressMapper, 0.5).current());
    // layout facts: a feature must not change the size, alignment or packing of the always-present types
    {
        use std::mem::{align_of, size_of};
        macro_rules! layout { ($($T:ty),+ $(,)?) => {$( put!((size_of::<$T>(), align_of::<$T>())); )+}; }
        layout!(Vec2<u8>, Vec3<u8>, Vec4<u8>, Vec2<i16>, Vec3<i16>, Vec4<i16>, Vec2<f32>, Vec3<f32>, Vec4<f32>, Vec2<f64>, Vec3<f64>, Vec4<f64>, Vec4<bool>, Vec4<u64>);
        layout!(Extent2<u8>, Extent3<u16>, Extent2<f32>, Extent3<f64>, Quaternion<f32>, Quaternion<f64>, Transform<f32, f32, f32>);
        layout!(Mat2<u8>, Mat3<u8>, Mat4<u8>, Mat2<f32>, Mat3<f32>, Mat4<f32>, Mat4<f64>, Mat4<i16>);
        layout!(vek::mat::repr_c::row_major::Mat2<u8>, vek::mat::repr_c::row_major::Mat3<i16>, vek::mat::repr_c::row_major::Mat4<u8>, vek::mat::repr_c::row_major::Mat4<f32>);
        layout!(Aabr<u8>, Aabb<f32>, Rect<u8, u8>, Rect3<i16, i16>, Disk<f32, f32>, Sphere<f64, f64>, Ray<f32>, LineSegment2<f32>, LineSegment3<u8>, CubicBezier2<f32>, QuadraticBezier3<f64>, FrustumPlanes<f32>);
        put!(Mat4::<u8>::identity().is_packed()); put!(Mat4::<i16>::identity().is_packed()); put!(Mat3::<u8>::identity().is_packed()); put!(Mat2::<u64>::identity().is_packed());
        put!(vek::mat::repr_c::row_major::Mat4::<u8>::identity().is_packed()); put!(vek::mat::repr_c::row_major::Mat3::<i16>::identity().is_packed());
        put!(Mat4::<u8>::identity().as_col_slice().len()); put!(vek::mat::repr_c::row_major::Mat4::<i16>::identity().as_row_slice().len());
        let arr = [Vec4::new(1u8, 2, 3, 4), Vec4::new(5, 6, 7, 8)];
        put!((&arr[1] as *const _ as usize) - (&arr[0] as *const _ as usize));
    }
    (h.0, n)
}

fn features() -> Vec<String> {
    let mut out = Vec::new();
    #[cfg(feature = "vec8")]
    out.push(format!("vec8 {:?} {:?}", Vec8::<i32>::iota().sum(), Vec8::<u8>::broadcast(3) * Vec8::iota()));
    #[cfg(feature = "vec16")]
    out.push(format!("vec16 {:?}", Vec16::<i32>::iota().reduce_max()));
    #[cfg(feature = "vec32")]
    out.push(format!("vec32 {:?}", Vec32::<i32>::iota().sum()));
    #[cfg(feature = "vec64")]
    out.push(format!("vec64 {:?}", Vec64::<i32>::iota().sum()));
    #[cfg(feature = "rgb")]
    out.push(format!("rgb {:?} {:?}", Rgb::<u8>::red(), Rgb::new(10u8, 20, 30).inverted_rgb()));
    #[cfg(feature = "rgba")]
    out.push(format!("rgba {:?} {:?}", Rgba::<u8>::green(), Rgba::new(10u8, 20, 30, 40).inverted_rgb()));
    #[cfg(all(feature = "rgb", feature = "rgba"))]
    out.push(format!("rgb+rgba {:?} {:?}", Rgba::<u8>::from(Rgb::new(1u8, 2, 3)), Rgb::<u8>::from(Rgba::new(1u8, 2, 3, 4))));
    #[cfg(feature = "uv")]
    out.push(format!("uv {:?}", Uv::new(1i32, 2) + Uv::new(3, 4)));
    #[cfg(feature = "uvw")]
    out.push(format!("uvw {:?}", Uvw::new(1i32, 2, 3) * 2));
    #[cfg(feature = "serde")]
    {
        fn ser<T: serde::Serialize>() -> &'static str { "ser" }
        fn de<T: for<'a> serde::Deserialize<'a>>() -> &'static str { "de" }
        out.push(format!("serde {} {} {} {} {} {}", ser::<Vec3<f32>>(), de::<Vec3<f32>>(), ser::<Mat4<f32>>(), de::<Quaternion<f32>>(), ser::<Aabr<i32>>(), de::<CubicBezier2<f32>>()));
        #[cfg(feature = "vec8")]
        out.push(format!("serde+vec8 {}", ser::<Vec8<i32>>()));
        #[cfg(feature = "rgba")]
        out.push(format!("serde+rgba {}", de::<Rgba<u8>>()));
    }
    #[cfg(feature = "mint")]
    {
        let v: mint::Vector3<f32> = Vec3::new(1.0f32, 2.0, 3.0).into();
        let back: Vec3<f32> = v.into();
        let q: mint::Quaternion<f32> = Quaternion::from_xyzw(1.0f32, 2.0, 3.0, 4.0).into();
        let m: mint::ColumnMatrix2<i32> = vek::mat::repr_c::column_major::Mat2::new(1, 2, 3, 4).into();
        let r: mint::RowMatrix2<i32> = vek::mat::repr_c::row_major::Mat2::new(1, 2, 3, 4).into();
        out.push(format!("mint {:?} {:?} {:?} {:?} {:?}", back, (q.v.x, q.v.y, q.v.z, q.s), (m.x.x, m.x.y, m.y.x, m.y.y), (r.x.x, r.x.y, r.y.x, r.y.y), Vec2::<i32>::from(mint::Point2 { x: 5, y: 6 })));
    }
    #[cfg(feature = "bytemuck")]
    {
        let v = Vec4::new(1u8, 2, 3, 4);
        let m = vek::mat::repr_c::row_major::Mat2::new(1u16, 2, 3, 4);
        out.push(format!("bytemuck {:?} {:?} {:?}", bytemuck::bytes_of(&v), bytemuck::cast::<_, [u16; 4]>(m), bytemuck::cast::<[f32; 4], Quaternion<f32>>([1.0, 2.0, 3.0, 4.0])));
        #[cfg(feature = "vec8")]
        out.push(format!("bytemuck+vec8 {:?}", bytemuck::bytes_of(&Vec8::<u8>::iota())));
        #[cfg(feature = "rgb")]
        out.push(format!("bytemuck+rgb {:?}", bytemuck::bytes_of(&Rgb::new(1u8, 2, 3))));
    }
    #[cfg(feature = "az")]
    {
        use az::{Cast, CheckedCast, OverflowingCast, SaturatingCast, WrappingCast};
        let v = Vec3::new(1.5f32, -2.5, 300.0);
        let a: Vec3<i32> = v.cast();
        let c: Option<Vec3<u8>> = v.checked_cast();
        let s: Vec3<u8> = v.saturating_cast();
        let w: Vec3<u8> = Vec3::new(1i32, 257, -1).wrapping_cast();
        let o: (Vec3<u8>, bool) = Vec3::new(1i32, 257, 3).overflowing_cast();
        out.push(format!("az {:?} {:?} {:?} {:?} {:?}", a, c, s, w, o));
        #[cfg(feature = "vec8")]
        {
            let o: (Vec8<u8>, bool) = (Vec8::<i32>::iota() * 40).overflowing_cast();
            out.push(format!("az+vec8 {:?}", o));
        }
        #[cfg(feature = "vec16")]
        {
            let o: (Vec16<u8>, bool) = (Vec16::<i32>::iota() * 10).overflowing_cast();
            out.push(format!("az+vec16 {:?}", o));
        }
        #[cfg(feature = "vec32")]
        {
            let o: (Vec32<u8>, bool) = (Vec32::<i32>::iota() * 9).overflowing_cast();
            out.push(format!("az+vec32 {:?}", o.1));
        }
        #[cfg(feature = "vec64")]
        {
            let o: (Vec64<u8>, bool) = (Vec64::<i32>::iota() * 4).overflowing_cast();
            out.push(format!("az+vec64 {:?}", o.1));
        }
        #[cfg(feature = "rgba")]
        {
            let o: (Rgba<u8>, bool) = Rgba::new(1i32, 2, 3, 256).overflowing_cast();
            out.push(format!("az+rgba {:?}", o));
        }
    }
    #[cfg(all(feature = "image", feature = "rgba"))]
    {
        use image::Pixel;
        let p = Rgba::new(10u8, 20, 30, 40);
        out.push(format!("image+rgba {:?} {:?} {:?}", <Rgba<u8> as Pixel>::CHANNEL_COUNT, p.channels(), p.to_luma()));
    }
    #[cfg(all(feature = "image", feature = "rgb"))]
    {
        use image::Pixel;
        let p = Rgb::new(10u8, 20, 30);
        out.push(format!("image+rgb {:?} {:?} {:?}", <Rgb<u8> as Pixel>::CHANNEL_COUNT, p.channels(), p.to_rgba()));
    }
    #[cfg(feature = "repr_simd")]
    out.push("repr_simd (a no-op on the stable toolchain)".to_string());
    out
}

fn main() {
    // argv: [seed [iterations]] for the wide differential workload (same in every configuration of one sweep)
    let args: Vec<String> = std::env::args().collect();
    let seed: u64 = args.get(1).and_then(|s| s.parse().ok()).unwrap_or(1);
    let iters: usize = args.get(2).and_then(|s| s.parse().ok()).unwrap_or(40);
    let (d, n) = base();
    println!("base_digest={:016x} base_values={}", d, n);
    std::panic::set_hook(Box::new(|_| {}));
    let w = wide::run(seed, iters);
    let _ = std::panic::take_hook();
    println!("wide_seed={} wide_iterations={} wide_calls_that_panicked={}", seed, iters, w.1);
    for (name, (digest, values)) in w.0.iter() {
        println!("section={} digest={:016x} values={}", name, digest, values);
    }
    for l in features() {
        println!("feature_line={}", l);
    }
}

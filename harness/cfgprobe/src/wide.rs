//! C20 configuration probe, wide differential workload.
//!
//! Pseudo-random inputs (seeded from argv) are driven through several hundred entry points of the
//! API that exists in *every* feature configuration.  The output of every call is hashed into the
//! digest of its section.  The probe itself decides nothing: the driver compares the section
//! digests between feature configurations built from the same tree ("enabling a feature only adds
//! items without changing the behaviour of the others").  Sections whose name starts with `trig_`
//! call transcendental functions, which `std` and `libm` may round differently: they are compared
//! within a base only; all other sections (plain arithmetic, comparisons, `sqrt`, `mul_add` — all
//! correctly rounded in both) must also agree between `std` and `libm`.
#![allow(unused_imports, unused_mut, unused_variables, unused_macros)]

use std::collections::BTreeMap;
use std::fmt::Debug;
use vek::mat::repr_c::column_major as cm;
use vek::mat::repr_c::row_major as rm;
use vek::*;

pub struct Sections(pub BTreeMap<&'static str, (u64, usize)>, pub usize);
impl Sections {
    /// `v`: the `Debug` rendering of the call's result, or None when the call panicked (hashed as such:
    /// a call that panics in one configuration and returns in another is a difference like any other)
    pub fn put(&mut self, sec: &'static str, v: Option<String>) {
        let e = self.0.entry(sec).or_insert((0xcbf29ce484222325, 0));
        if v.is_none() {
            self.1 += 1;
        }
        for b in v.unwrap_or_else(|| "PANIC".to_string()).bytes() {
            e.0 ^= b as u64;
            e.0 = e.0.wrapping_mul(0x100000001b3);
        }
        e.0 ^= 0xff;
        e.0 = e.0.wrapping_mul(0x100000001b3);
        e.1 += 1;
    }
}

pub struct Rng(u64);
impl Rng {
    pub fn new(seed: u64) -> Self { Rng(seed ^ 0x9e3779b97f4a7c15) }
    pub fn next(&mut self) -> u64 {
        self.0 = self.0.wrapping_add(0x9e3779b97f4a7c15);
        let mut z = self.0;
        z = (z ^ (z >> 30)).wrapping_mul(0xbf58476d1ce4e5b9);
        z = (z ^ (z >> 27)).wrapping_mul(0x94d049bb133111eb);
        z ^ (z >> 31)
    }
    /// small integer in [-r, r]
    pub fn int(&mut self, r: i64) -> i64 { (self.next() % (2 * r as u64 + 1)) as i64 - r }
    /// float of mixed character: short dyadics, thirds/tenths, a few larger and tiny magnitudes
    pub fn flt(&mut self) -> f64 {
        let k = self.next() % 10;
        let base = self.int(64) as f64;
        match k {
            0..=3 => base / 16.0,
            4 | 5 => base / 10.0,
            6 => base / 3.0,
            7 => base * 37.25,
            8 => base / 4096.0,
            _ => (self.int(1000) as f64) / 7.0,
        }
    }
    /// strictly positive float
    pub fn pos(&mut self) -> f64 { self.flt().abs() + 0.0625 }
    /// factor, mostly inside [0,1]
    pub fn unit(&mut self) -> f64 { (self.next() % 33) as f64 / 32.0 }
}

macro_rules! float_workload {
    ($fname:ident, $T:ty, $sec_vec:expr, $sec_mat:expr, $sec_quat:expr, $sec_geom:expr, $sec_bez:expr, $sec_ops:expr, $sec_sqrt:expr, $sec_trig:expr) => {
        pub fn $fname(s: &mut Sections, rng: &mut Rng, iters: usize) {
            type T = $T;
            macro_rules! f { () => { rng.flt() as T }; }
            macro_rules! p { () => { rng.pos() as T }; }
            macro_rules! u { () => { rng.unit() as T }; }
            macro_rules! v2 { () => { Vec2::<T>::new(f!(), f!()) }; }
            macro_rules! v3 { () => { Vec3::<T>::new(f!(), f!(), f!()) }; }
            macro_rules! v4 { () => { Vec4::<T>::new(f!(), f!(), f!(), f!()) }; }
            macro_rules! put { ($sec:expr, $e:expr) => { { let r = std::panic::catch_unwind(std::panic::AssertUnwindSafe(|| format!("{:?}", $e))).ok(); s.put($sec, r) } }; }
            for _ in 0..iters {
                // ---------------- vectors
                let (a2, b2, a3, b3, c3, a4, b4) = (v2!(), v2!(), v3!(), v3!(), v3!(), v4!(), v4!());
                let k = f!();
                let sv = $sec_vec;
                put!(sv, a2 + b2); put!(sv, a3 - b3); put!(sv, a4 * b4); put!(sv, a3 * k); put!(sv, a4 + k); put!(sv, -a2); put!(sv, a3 / (b3.map(|x| x.abs()) + 1.0));
                put!(sv, &a3 + &b3); put!(sv, a4 - &b4); put!(sv, { let mut t = a3; t += b3; t *= k; t -= c3; t });
                put!(sv, a3.mul_add(b3, c3)); put!(sv, a2.dot(b2)); put!(sv, a3.dot(b3)); put!(sv, a4.dot(b4)); put!(sv, a3.cross(b3));
                put!(sv, a3.sum()); put!(sv, a4.product()); put!(sv, a4.average()); put!(sv, a3.reduce_partial_min()); put!(sv, a4.reduce_partial_max());
                put!(sv, Vec3::<T>::partial_min(a3, b3)); put!(sv, Vec4::<T>::partial_max(a4, b4)); put!(sv, a3.partial_cmplt(&b3)); put!(sv, a4.partial_cmpge(&b4)); put!(sv, a2.partial_cmpeq(&b2));
                put!(sv, a3.magnitude_squared()); put!(sv, a4.distance_squared(b4)); put!(sv, a2.determine_side(b2, v2!())); put!(sv, Vec2::signed_triangle_area(a2, b2, v2!()));
                put!(sv, a3.reflected(b3)); put!(sv, a3.face_forward(b3, c3)); put!(sv, a3.map(|x| x * 2.0)); put!(sv, a4.map2(b4, |x, y| x - y)); put!(sv, a3.zip(b3));
                put!(sv, a4.xyz()); put!(sv, a4.wzyx()); put!(sv, a3.zyx()); put!(sv, a2.yx()); put!(sv, a3.with_y(k)); put!(sv, a4.with_w(k)); put!(sv, a3.xy());
                put!(sv, Vec4::<T>::from(a3)); put!(sv, Vec3::<T>::from(a4)); put!(sv, Vec2::<T>::from(a4)); put!(sv, Vec4::<T>::from_point(a3)); put!(sv, Vec4::<T>::from_direction(a3)); put!(sv, Vec3::<T>::from_point_2d(a2)); put!(sv, Vec3::<T>::from_direction_2d(a2));
                put!(sv, Extent2::<T>::from(a2)); put!(sv, Extent3::<T>::from(a3) * k); put!(sv, Vec3::<T>::from(Extent3::<T>::from(a3))); put!(sv, a4.into_array()); put!(sv, a3.into_tuple()); put!(sv, Vec3::<T>::from([k, k + 1.0, k - 1.0]));
                put!(sv, a4.shuffled((2, 0, 3, 1))); put!(sv, Vec4::shuffle_lo_hi(a4, b4, (1, 3, 0, 2))); put!(sv, Vec4::interleave_0011(a4, b4)); put!(sv, Vec4::interleave_2233(a4, b4)); put!(sv, a4.hadd(b4));
                put!(sv, a4.mat2_rows_mul(b4)); put!(sv, a4.mat2_cols_mul(b4)); put!(sv, a4.mat2_rows_adj_mul(b4)); put!(sv, a4.mat2_rows_mul_adj(b4)); put!(sv, a4.mat2_cols_adj_mul(b4)); put!(sv, a4.mat2_cols_mul_adj(b4));
                put!(sv, a3.into_iter().rev().collect::<Vec3<T>>()); put!(sv, a4.iter().fold(0.0 as T, |acc, x| acc * 0.5 + *x)); put!(sv, Vec3::<T>::from_slice(&[k, k])); put!(sv, a3.as_slice());
                put!(sv, a3.is_any_negative()); put!(sv, a4.are_all_positive()); put!(sv, a3.ceil()); put!(sv, a3.floor()); put!(sv, a4.round()); put!(sv, (a3.map(|x| x.abs()) + 1.0).recip());
                put!(sv, a4.is_point()); put!(sv, Vec4::<T>::from_direction(a3).is_direction());
                put!(sv, a3.as_::<i32>()); put!(sv, a4.numcast::<i16>()); put!(sv, a2.as_::<u8>());
                put!(sv, vek::approx::AbsDiffEq::abs_diff_eq(&a3, &b3, 4.0)); put!(sv, vek::approx::RelativeEq::relative_eq(&a4, &(a4 * 1.0000001), 1e-5, 1e-5)); put!(sv, vek::approx::UlpsEq::ulps_eq(&a2, &a2, 0.0, 1));
                // sqrt family
                let sq = $sec_sqrt;
                put!(sq, a3.magnitude()); put!(sq, a2.distance(b2)); put!(sq, (a3 + 0.03125).normalized()); put!(sq, (a4 + 0.03125).try_normalized()); put!(sq, (a2 + 0.03125).normalized_and_get_magnitude());
                put!(sq, (a3.map(|x| x.abs())).sqrt()); put!(sq, (a4.map(|x| x.abs()) + 1.0).rsqrt()); put!(sq, a3.is_normalized()); put!(sq, a3.is_approx_zero());
                put!(sq, (a3 + 0.03125).normalized().refracted((b3 + 0.03125).normalized(), u!()));
                // ---------------- ops
                let so = $sec_ops;
                let (lo, hi) = { let x = f!(); let y = f!(); if x <= y { (x, y) } else { (y, x) } };
                put!(so, k.clamped(lo, hi)); put!(so, k.is_between(lo, hi)); put!(so, k.clamped01()); put!(so, k.is_between01()); put!(so, a3.clamped(Vec3::broadcast(lo), Vec3::broadcast(hi)));
                let up = p!();
                put!(so, k.wrapped(up)); put!(so, k.pingpong(up)); put!(so, k.wrapped_between(lo.abs(), lo.abs() + up)); put!(so, a3.wrapped(Vec3::broadcast(up))); put!(so, k.wrapped_2pi()); put!(so, k.delta_angle(lo)); put!(so, k.delta_angle_degrees(hi));
                let t = u!();
                put!(so, Lerp::lerp(lo, hi, t)); put!(so, Lerp::lerp_unclamped(lo, hi, k)); put!(so, Lerp::lerp_precise(lo, hi, t)); put!(so, Lerp::lerp_unclamped_precise(lo, hi, k));
                put!(so, Vec3::lerp(a3, b3, t)); put!(so, Vec4::lerp_unclamped_precise(a4, b4, k)); put!(so, Lerp::lerp(&a2, &b2, t)); put!(so, Vec3::lerp(a3, b3, Vec3::new(t, k, t)));
                put!(so, <i32 as Lerp<T>>::lerp(rng.int(1000) as i32, rng.int(1000) as i32, t)); put!(so, <u8 as Lerp<T>>::lerp_unclamped_precise((rng.int(100) + 128) as u8, (rng.int(100) + 128) as u8, t));
                put!(so, <i64 as Lerp<T>>::lerp_unclamped(rng.int(100000), rng.int(100000), t)); put!(so, <u16 as Lerp<T>>::lerp_precise(60000, 10, t));
                put!(so, LinearTransition::<Vec2<T>, T>::with_mapper_and_progress(a2, b2, IdentityProgressMapper, t).current()); put!(so, LinearTransition::<T, T>::with_mapper(lo, hi, IdentityProgressMapper).into_range());
                put!(so, partial_min(k, lo)); put!(so, partial_max(k, hi));
                // ---------------- matrices
                let sm = $sec_mat;
                let r4 = rm::Mat4::<T>::new(f!(), f!(), f!(), f!(), f!(), f!(), f!(), f!(), f!(), f!(), f!(), f!(), f!(), f!(), f!(), f!());
                let q4 = rm::Mat4::<T>::new(f!(), f!(), f!(), f!(), f!(), f!(), f!(), f!(), f!(), f!(), f!(), f!(), f!(), f!(), f!(), f!());
                let c4 = cm::Mat4::<T>::from(r4);
                let d4 = cm::Mat4::<T>::from(q4);
                let r3 = rm::Mat3::<T>::new(f!(), f!(), f!(), f!(), f!(), f!(), f!(), f!(), f!());
                let c3m = cm::Mat3::<T>::from(r3);
                let r2 = rm::Mat2::<T>::new(f!(), f!(), f!(), f!());
                let c2 = cm::Mat2::<T>::from(r2);
                put!(sm, r4 * q4); put!(sm, c4 * d4); put!(sm, r4 * d4); put!(sm, c4 * q4); put!(sm, r4 * a4); put!(sm, c4 * a4); put!(sm, a4 * r4); put!(sm, a4 * c4);
                put!(sm, r3 * r3); put!(sm, c3m * c3m); put!(sm, r3 * a3); put!(sm, a3 * c3m); put!(sm, r2 * c2); put!(sm, c2 * a2); put!(sm, a2 * r2);
                put!(sm, r4 * k); put!(sm, c4 + d4); put!(sm, r4 - q4); put!(sm, c3m * k); put!(sm, -r2); put!(sm, { let mut m = c4; m *= d4; m }); put!(sm, { let mut m = r3; m *= k; m += r3; m });
                put!(sm, r4.transposed()); put!(sm, c4.transposed()); put!(sm, { let mut m = c3m; m.transpose(); m }); put!(sm, r4.determinant()); put!(sm, c4.determinant()); put!(sm, r3.determinant()); put!(sm, c2.determinant());
                put!(sm, r4.diagonal()); put!(sm, c4.trace()); put!(sm, r3.trace()); put!(sm, rm::Mat4::<T>::with_diagonal(a4)); put!(sm, cm::Mat3::<T>::broadcast_diagonal(k)); put!(sm, r4.mul_memberwise(q4));
                put!(sm, c4.inverted()); put!(sm, r4.inverted()); put!(sm, r4[(1, 2)]); put!(sm, c4[(3, 0)]); put!(sm, c3m[(2, 1)]); put!(sm, r2[(0, 1)]);
                put!(sm, r4.into_row_array()); put!(sm, c4.into_row_array()); put!(sm, r4.into_col_arrays()); put!(sm, c4.into_col_array()); put!(sm, cm::Mat3::<T>::from_row_array(r3.into_row_array())); put!(sm, rm::Mat2::<T>::from_col_arrays(c2.into_col_arrays()));
                put!(sm, c4.as_col_slice()); put!(sm, r4.as_row_slice()); put!(sm, c4.gl_should_transpose()); put!(sm, r4.gl_should_transpose());
                put!(sm, cm::Mat3::<T>::from(c4)); put!(sm, rm::Mat2::<T>::from(r3)); put!(sm, cm::Mat4::<T>::from(c3m)); put!(sm, rm::Mat4::<T>::from(r2)); put!(sm, cm::Mat4::<T>::from(c2)); put!(sm, cm::Mat3::<T>::from(c2));
                put!(sm, c4.map(|x| x + 1.0)); put!(sm, r4.map2(q4, |x, y| x * y)); put!(sm, c4.as_::<i32>()); put!(sm, r3.numcast::<i16>()); put!(sm, format!("{}", c3m)); put!(sm, format!("{}", r3));
                put!(sm, cm::Mat4::<T>::translation_3d(a3)); put!(sm, rm::Mat4::<T>::translation_2d(a2)); put!(sm, cm::Mat4::<T>::scaling_3d(a3)); put!(sm, cm::Mat3::<T>::translation_2d(a2)); put!(sm, rm::Mat3::<T>::scaling_3d(a3)); put!(sm, cm::Mat2::<T>::scaling_2d(a2)); put!(sm, rm::Mat2::<T>::shearing_x(k)); put!(sm, cm::Mat2::<T>::shearing_y(k));
                put!(sm, c4.translated_3d(a3)); put!(sm, r4.scaled_3d(b3)); put!(sm, c4.translated_2d(a2)); put!(sm, c3m.translated_2d(a2)); put!(sm, r3.scaled_3d(a3)); put!(sm, c2.scaled_2d(a2)); put!(sm, r2.sheared_x(k)); put!(sm, c2.sheared_y(k));
                put!(sm, { let mut m = c4; m.translate_3d(a3); m.scale_3d(b3); m.translate_2d(a2); m }); put!(sm, { let mut m = r3; m.translate_2d(a2); m.scale_3d(b3); m });
                put!(sm, c4.mul_point(a3)); put!(sm, r4.mul_direction(a3)); put!(sm, c3m.mul_point_2d(a2)); put!(sm, r3.mul_direction_2d(a2));
                let fp = FrustumPlanes { left: lo - 1.0, right: hi + 1.0, bottom: -p!(), top: p!(), near: 0.25 + u!(), far: 10.0 + p!() };
                put!(sm, cm::Mat4::<T>::orthographic_rh_no(fp)); put!(sm, rm::Mat4::<T>::orthographic_lh_zo(fp)); put!(sm, cm::Mat4::<T>::orthographic_lh_no(fp)); put!(sm, cm::Mat4::<T>::orthographic_rh_zo(fp)); put!(sm, cm::Mat4::<T>::orthographic_without_depth_planes(fp));
                put!(sm, cm::Mat4::<T>::frustum_rh_no(fp)); put!(sm, rm::Mat4::<T>::frustum_lh_zo(fp)); put!(sm, cm::Mat4::<T>::frustum_lh_no(fp)); put!(sm, cm::Mat4::<T>::frustum_rh_zo(fp));
                let vp = Rect::new(lo, hi, p!(), p!());
                put!(sm, cm::Mat4::<T>::picking_region(a2, Vec2::new(p!(), p!()), vp)); put!(sm, cm::Mat4::<T>::world_to_viewport_no(a3, c4, cm::Mat4::orthographic_rh_no(fp), vp)); put!(sm, cm::Mat4::<T>::world_to_viewport_zo(a3, cm::Mat4::translation_3d(b3), cm::Mat4::frustum_rh_zo(fp), vp));
                put!(sm, cm::Mat4::<T>::viewport_to_world_no(a3, cm::Mat4::translation_3d(b3), cm::Mat4::orthographic_rh_no(fp), vp)); put!(sm, rm::Mat4::<T>::viewport_to_world_zo(a3, rm::Mat4::scaling_3d(Vec3::new(2.0, 4.0, 0.5)), rm::Mat4::orthographic_lh_zo(fp), vp));
                put!(sm, cm::Mat4::<T>::basis_to_local(a3, b3, c3, v3!())); put!(sm, rm::Mat4::<T>::local_to_basis(a3, b3, c3, v3!())); put!(sm, cm::Mat4::<T>::basis_to_local(a3, b3, c3, v3!()).is_packed());
                let rigid = cm::Mat4::<T>::translation_3d(a3) * cm::Mat4::from(Quaternion::<T>::from_xyzw(0.5, -0.5, 0.5, 0.5));
                put!(sm, rigid.inverted_affine_transform_no_scale()); put!(sm, (rigid * cm::Mat4::scaling_3d(Vec3::new(2.0, 0.5, 4.0))).inverted_affine_transform());
                put!(sm, vek::approx::AbsDiffEq::abs_diff_eq(&c4, &d4, 100.0)); put!(sm, vek::approx::RelativeEq::relative_eq(&r3, &r3, 0.0, 0.0));
                put!(sm, <cm::Mat3<T> as num_traits::Zero>::zero()); put!(sm, <rm::Mat4<T> as num_traits::One>::one()); put!(sm, cm::Mat2::<T>::default()); put!(sm, cm::Mat4::<T>::identity() == cm::Mat4::default());
                // ---------------- quaternions and transforms
                let sqt = $sec_quat;
                let qa = Quaternion::<T>::from_xyzw(f!(), f!(), f!(), f!());
                let qb = Quaternion::<T>::from_xyzw(f!(), f!(), f!(), f!());
                put!(sqt, qa * qb); put!(sqt, qa + qb); put!(sqt, qa - qb); put!(sqt, -qa); put!(sqt, qa * k); put!(sqt, qa / (k.abs() + 1.0)); put!(sqt, qa.conjugate()); put!(sqt, qa.dot(qb)); put!(sqt, qa.magnitude_squared());
                put!(sqt, (qa + Quaternion::from_xyzw(0.0, 0.0, 0.0, 100.0)).inverse()); put!(sqt, qa * a3); put!(sqt, qa * a4); put!(sqt, cm::Mat4::<T>::from(qa)); put!(sqt, rm::Mat3::<T>::from(qb)); put!(sqt, qa.into_vec4()); put!(sqt, Quaternion::<T>::from_vec4(a4)); put!(sqt, qa.into_scalar_and_vec3()); put!(sqt, Quaternion::<T>::from_scalar_and_vec3((k, a3)));
                put!(sqt, Quaternion::<T>::lerp_unclamped_unnormalized(qa, qb, k)); put!(sqt, Quaternion::<T>::lerp_unnormalized(qa, qb, t)); put!(sqt, Quaternion::<T>::identity() * qa == qa);
                let tr = Transform { position: a3, orientation: Quaternion::<T>::from_xyzw(0.5, 0.5, -0.5, 0.5), scale: b3 };
                put!(sqt, cm::Mat4::<T>::from(tr)); put!(sqt, rm::Mat4::<T>::from(tr)); put!(sqt, Transform::<T, T, T>::default()); put!(sqt, cm::Mat4::<T>::from(Transform::<T, T, T>::default()));
                put!(sq, (qa + Quaternion::from_xyzw(0.0, 0.0, 0.0, 100.0)).normalized()); put!(sq, qa.magnitude()); put!(sq, Quaternion::<T>::lerp(qa, qb + Quaternion::from_xyzw(0.0, 0.0, 0.0, 300.0), t));
                put!(sq, Quaternion::<T>::rotation_from_to_3d(a3 + 0.03125, b3 + 0.03125)); put!(sq, cm::Mat4::<T>::rotation_from_to_3d(a3 + 0.03125, b3 + 0.03125)); put!(sq, rm::Mat3::<T>::rotation_from_to_3d(a3 + 0.03125, c3 + 0.03125));
                put!(sq, cm::Mat4::<T>::look_at_rh(a3, b3 + 100.0, Vec3::unit_y())); put!(sq, rm::Mat4::<T>::look_at_lh(a3, b3 + 100.0, Vec3::new(0.25, 1.0, 0.0))); put!(sq, cm::Mat4::<T>::model_look_at_rh(a3, b3 + 100.0, Vec3::unit_y())); put!(sq, cm::Mat4::<T>::model_look_at_lh(a3, b3 + 100.0, Vec3::unit_y()));
                // ---------------- geometry
                let sg = $sec_geom;
                let bx = Aabr { min: a2, max: b2 }.made_valid();
                let by = Aabr { min: v2!(), max: v2!() }.made_valid();
                let pt = v2!();
                put!(sg, bx); put!(sg, Aabr { min: a2, max: b2 }.is_valid()); put!(sg, bx.union(by)); put!(sg, bx.intersection(by)); put!(sg, bx.contains_point(pt)); put!(sg, bx.contains_aabr(by)); put!(sg, bx.collides_with_aabr(by)); put!(sg, bx.collision_vector_with_aabr(by));
                put!(sg, bx.expanded_to_contain_point(pt)); put!(sg, bx.center()); put!(sg, bx.size()); put!(sg, bx.half_size()); put!(sg, bx.projected_point(pt)); put!(sg, bx.into_rect()); put!(sg, bx.into_rect().into_aabr()); put!(sg, Aabr::new_empty(pt));
                put!(sg, bx.split_at_x((bx.min.x + bx.max.x) / 2.0)); put!(sg, bx.split_at_y(bx.max.y)); put!(sg, { let mut b = bx; b.expand_to_contain(by); b.intersect(by); b }); put!(sg, bx.as_::<i32>()); put!(sg, bx.map(|x| x * 2.0));
                let cx = Aabb { min: a3, max: b3 }.made_valid();
                let cy = Aabb { min: c3, max: v3!() }.made_valid();
                put!(sg, cx.union(cy)); put!(sg, cx.intersection(cy)); put!(sg, cx.contains_point(c3)); put!(sg, cx.contains_aabb(cy)); put!(sg, cx.collides_with_aabb(cy)); put!(sg, cx.collision_vector_with_aabb(cy)); put!(sg, cx.center()); put!(sg, cx.size()); put!(sg, cx.projected_point(c3));
                put!(sg, cx.into_rect3()); put!(sg, cx.split_at_z((cx.min.z + cx.max.z) / 2.0)); put!(sg, Aabr::from(cx)); put!(sg, cx.expanded_to_contain_point(c3));
                let ra = Rect::new(f!(), f!(), p!(), p!());
                let rb = Rect::new(f!(), f!(), p!(), p!());
                put!(sg, ra.contains_point(pt)); put!(sg, ra.contains_rect(rb)); put!(sg, ra.collides_with_rect(rb)); put!(sg, ra.collision_vector_with_rect(rb)); put!(sg, ra.union(rb)); put!(sg, ra.intersection(rb)); put!(sg, ra.center()); put!(sg, ra.into_aabr()); put!(sg, ra.position()); put!(sg, ra.extent());
                put!(sg, ra.expanded_to_contain_point(pt)); put!(sg, ra.split_at_x(ra.x + ra.w / 2.0)); put!(sg, ra.as_::<i32, u32>());
                let r3a = Rect3::new(f!(), f!(), f!(), p!(), p!(), p!());
                put!(sg, r3a.into_aabb()); put!(sg, r3a.contains_point(c3)); put!(sg, r3a.center()); put!(sg, r3a.collides_with_rect3(Rect3::new(f!(), f!(), f!(), p!(), p!(), p!())));
                let dk = Disk::new(a2, p!());
                let dl = Disk::new(b2, p!());
                put!(sg, dk.contains_point(pt)); put!(sg, dk.collides_with_disk(dl)); put!(sg, dk.diameter()); put!(sg, dk.aabr()); put!(sg, dk.rect()); put!(sg, Disk::<T, T>::unit(pt)); put!(sg, Disk::<T, T>::point(pt));
                let sp = Sphere::new(a3, p!());
                let sq2 = Sphere::new(b3, p!());
                put!(sg, sp.contains_point(c3)); put!(sg, sp.collides_with_sphere(sq2)); put!(sg, sp.aabb()); put!(sg, sp.rect3()); put!(sg, sp.diameter());
                put!(sq, dk.collision_vector_with_disk(dl)); put!(sq, sp.collision_vector_with_sphere(sq2)); put!(sq, bx.distance_to_point(pt)); put!(sq, cx.distance_to_point(c3)); put!(sq, dk.circumference()); put!(sq, dk.area()); put!(sq, sp.surface_area()); put!(sq, sp.volume());
                let seg2 = LineSegment2 { start: a2, end: b2 };
                let seg3 = LineSegment3 { start: a3, end: b3 };
                put!(sg, seg2.projected_point(pt)); put!(sg, seg3.projected_point(c3)); put!(sg, seg2.into_range()); put!(sg, seg3.as_::<i32>()); put!(sq, seg2.distance_to_point(pt)); put!(sq, seg3.distance_to_point(c3));
                let ray = Ray::new(a3, b3 + 0.03125);
                put!(sg, ray.triangle_intersection([c3, v3!(), v3!()])); put!(sg, Ray::new(Vec3::new(0.25 as T, 0.25, -1.0), Vec3::new(0.0, 0.0, 1.0)).triangle_intersection([Vec3::zero(), Vec3::unit_x() * p!(), Vec3::unit_y() * p!()]));
                // ---------------- bezier
                let sb = $sec_bez;
                let cb2 = CubicBezier2 { start: a2, ctrl0: b2, ctrl1: v2!(), end: v2!() };
                let cb3 = CubicBezier3 { start: a3, ctrl0: b3, ctrl1: c3, end: v3!() };
                let qb2 = QuadraticBezier2 { start: a2, ctrl: b2, end: v2!() };
                let qb3 = QuadraticBezier3 { start: a3, ctrl: b3, end: c3 };
                put!(sb, cb2.evaluate(t)); put!(sb, cb3.evaluate(k)); put!(sb, qb2.evaluate(t)); put!(sb, qb3.evaluate(k)); put!(sb, cb2.evaluate_derivative(t)); put!(sb, cb3.evaluate_derivative(k)); put!(sb, qb2.evaluate_derivative(t)); put!(sb, qb3.evaluate_derivative(k));
                put!(sb, cb2.split(t)); put!(sb, cb3.split(t)); put!(sb, qb2.split(t)); put!(sb, qb3.split(k)); put!(sb, cb2.reversed()); put!(sb, qb3.reversed()); put!(sb, qb2.into_cubic()); put!(sb, qb3.into_cubic()); put!(sb, cb2.into_3d()); put!(sb, cb3.into_2d());
                put!(sb, CubicBezier2::from(seg2)); put!(sb, QuadraticBezier3::from(seg3)); put!(sb, CubicBezier2::<T>::matrix()); put!(sb, QuadraticBezier2::<T>::matrix()); put!(sb, r2 * cb2); put!(sb, c3m * cb3); put!(sb, c4 * qb3); put!(sb, c2 * qb2); put!(sb, cb2.flipped_x()); put!(sb, qb3.flipped_z());
                put!(sb, cb2.into_tuple()); put!(sb, qb3.into_array()); put!(sb, CubicBezier3::from(cb3.into_vec4())); put!(sb, QuadraticBezier2::from(qb2.into_vec3()));
                put!(sq, cb2.x_inflections()); put!(sq, cb3.y_inflections()); put!(sq, cb3.z_inflections()); put!(sq, qb2.x_inflection()); put!(sq, qb3.z_inflection()); put!(sq, cb2.min_x()); put!(sq, cb2.max_y()); put!(sq, cb3.x_bounds()); put!(sq, qb2.y_bounds()); put!(sq, qb3.z_bounds());
                put!(sq, cb2.aabr()); put!(sq, cb3.aabb()); put!(sq, qb2.aabr()); put!(sq, qb3.aabb()); put!(sq, cb2.length_by_discretization(7)); put!(sq, qb3.length_by_discretization(3)); put!(sq, cb3.normalized_tangent(t)); put!(sq, qb2.normalized_tangent(t));
                put!(sq, cb2.binary_search_point_by_steps(pt, 8, 0.001)); put!(sq, qb3.binary_search_point_by_steps(c3, 5, 0.01)); put!(sq, cb3.binary_search_point(c3, [(0.25 as T, cb3.evaluate(0.25)), (0.75 as T, cb3.evaluate(0.75))], 0.25, 0.001));
                // ---------------- transcendental functions (compared within a base only)
                let st = $sec_trig;
                let ang = k / 3.0;
                put!(st, cm::Mat4::<T>::rotation_x(ang)); put!(st, rm::Mat4::<T>::rotation_y(ang)); put!(st, cm::Mat3::<T>::rotation_z(ang)); put!(st, rm::Mat2::<T>::rotation_z(ang)); put!(st, cm::Mat4::<T>::rotation_3d(ang, a3 + 0.03125)); put!(st, rm::Mat3::<T>::rotation_3d(ang, b3 + 0.03125));
                put!(st, c4.rotated_x(ang)); put!(st, r4.rotated_y(ang)); put!(st, c3m.rotated_z(ang)); put!(st, c4.rotated_3d(ang, a3 + 0.03125)); put!(st, { let mut m = r3; m.rotate_x(ang); m.rotate_3d(ang, b3 + 0.03125); m }); put!(st, a2.rotated_z(ang));
                put!(st, Quaternion::<T>::rotation_x(ang)); put!(st, Quaternion::<T>::rotation_y(ang)); put!(st, Quaternion::<T>::rotation_z(ang)); put!(st, Quaternion::<T>::rotation_3d(ang, a3 + 0.03125)); put!(st, Quaternion::<T>::identity().rotated_x(ang).rotated_3d(ang, b3 + 0.03125));
                let ua = Quaternion::<T>::rotation_3d(ang, a3 + 0.03125);
                let ub = Quaternion::<T>::rotation_3d(f!() / 3.0, b3 + 0.03125);
                put!(st, Quaternion::<T>::slerp(ua, ub, t)); put!(st, Quaternion::<T>::slerp_unclamped(ua, ub, k)); put!(st, ua.into_angle_axis()); put!(st, Lerp::lerp(Transform { position: a3, orientation: ua, scale: b3 }, Transform { position: b3, orientation: ub, scale: c3 }, t));
                put!(st, (a3 + 0.03125).angle_between(b3 + 0.03125)); put!(st, Vec3::<T>::slerp(a3 + 0.03125, b3 + 0.03125, t)); put!(st, Vec3::<T>::slerp_unclamped(a3 + 0.03125, c3 + 0.03125, k));
                let fov = 0.5 + u!();
                put!(st, cm::Mat4::<T>::perspective_rh_no(fov, 1.5, fp.near, fp.far)); put!(st, rm::Mat4::<T>::perspective_lh_zo(fov, 1.5, fp.near, fp.far)); put!(st, cm::Mat4::<T>::perspective_fov_rh_zo(fov, 640.0, 480.0, fp.near, fp.far)); put!(st, cm::Mat4::<T>::perspective_fov_lh_no(fov, 640.0, 480.0, fp.near, fp.far));
                put!(st, cm::Mat4::<T>::infinite_perspective_rh(fov, 1.5, fp.near)); put!(st, cm::Mat4::<T>::tweaked_infinite_perspective_lh(fov, 1.5, fp.near, 1e-6)); put!(st, cm::Mat4::<T>::perspective_lh_no(fov, 1.5, fp.near, fp.far)); put!(st, cm::Mat4::<T>::perspective_rh_zo(fov, 1.5, fp.near, fp.far));
                put!(st, CubicBezier2::<T>::unit_quarter_circle().evaluate(t)); put!(st, CubicBezier2::<T>::unit_circle()[1].evaluate(t));
            }
        }
    };
}

float_workload!(floats_f32, f32, "vec_f32", "mat_f32", "quat_f32", "geom_f32", "bezier_f32", "ops_f32", "sqrt_f32", "trig_f32");
float_workload!(floats_f64, f64, "vec_f64", "mat_f64", "quat_f64", "geom_f64", "bezier_f64", "ops_f64", "sqrt_f64", "trig_f64");

macro_rules! int_workload {
    ($fname:ident, $T:ty, $range:expr, $signed:expr, $sec:expr) => {
        pub fn $fname(s: &mut Sections, rng: &mut Rng, iters: usize) {
            type T = $T;
            // values stay small: the probe is built with overflow checks, an overflow would be a panic of the probe
            macro_rules! i { () => { (if $signed { rng.int($range) } else { rng.int($range).abs() }) as T }; }
            macro_rules! nz { () => { (rng.int($range).abs() + 1) as T }; }
            macro_rules! v2 { () => { Vec2::<T>::new(i!(), i!()) }; }
            macro_rules! v3 { () => { Vec3::<T>::new(i!(), i!(), i!()) }; }
            macro_rules! v4 { () => { Vec4::<T>::new(i!(), i!(), i!(), i!()) }; }
            macro_rules! put { ($e:expr) => { { let r = std::panic::catch_unwind(std::panic::AssertUnwindSafe(|| format!("{:?}", $e))).ok(); s.put($sec, r) } }; }
            use vek::num_traits::{CheckedAdd, CheckedDiv, CheckedMul, CheckedSub, SaturatingAdd, SaturatingSub, WrappingAdd, WrappingMul, WrappingSub, Zero, One};
            for _ in 0..iters {
                let (a2, b2, a3, b3, a4, b4) = (v2!(), v2!(), v3!(), v3!(), v4!(), v4!());
                let k = i!();
                put!(a2 + b2); put!(a3 * b3); put!(a4 + k); put!(a3 * k); put!(a4 / Vec4::new(nz!(), nz!(), nz!(), nz!())); put!(a3 % Vec3::broadcast(nz!())); put!(a4 & b4); put!(a4 | b4); put!(a3 ^ b3); put!(!a2); put!(a3 << 1u32 as T); put!(a4 >> Vec4::broadcast(1 as T));
                put!(a3.dot(b3)); put!(a4.sum()); put!(a3.product()); put!(a4.reduce_min()); put!(a3.reduce_max()); put!(a4.reduce_bitand()); put!(a3.reduce_bitor()); put!(a4.reduce_bitxor()); put!(a3.reduce_and()); put!(a4.reduce_or());
                put!(Vec3::<T>::min(a3, b3)); put!(Vec4::<T>::max(a4, b4)); put!(a3.cmpeq(&b3)); put!(a4.cmplt(&b4)); put!(a2.cmpge(&b2)); put!(a3.cmpne(&b3)); put!(a4.cmple(&b4)); put!(a4.cmpgt(&b4));
                put!(a4.checked_add(&b4)); put!(a3.checked_sub(&b3)); put!(a3.checked_mul(&b3)); put!(a4.checked_div(&b4)); put!(a4.wrapping_add(&b4)); put!(a3.wrapping_sub(&b3)); put!(a3.wrapping_mul(&b3)); put!(a4.saturating_add(&b4)); put!(a3.saturating_sub(&b3));
                put!(Vec4::<T>::broadcast(<T>::MAX).checked_add(&a4)); put!(Vec3::<T>::broadcast(<T>::MAX).wrapping_add(&a3)); put!(Vec3::<T>::broadcast(<T>::MIN).saturating_sub(&a3)); put!(Vec2::<T>::broadcast(<T>::MAX).checked_mul(&a2));
                put!(a3.is_zero()); put!(Vec4::<T>::zero()); put!(Vec2::<T>::one()); put!(Vec4::<T>::iota()); put!(Vec3::<T>::broadcast(k)); put!(a3.clamped(Vec3::zero(), Vec3::broadcast(5 as T))); put!(k.clamped(0 as T, 7 as T)); put!(k.is_between(1 as T, 9 as T));
                put!(k.wrapped(nz!())); put!(k.pingpong(nz!())); put!(k.wrapped_between(k - k, nz!())); put!(a3.wrapped(Vec3::broadcast(nz!())));
                put!(a4.shuffled((3, 1, 2, 0))); put!(a4.xyz()); put!(a3.with_z(k)); put!(Vec4::<T>::from(a2)); put!(Vec2::<T>::from(a3)); put!(Extent3::<T>::from(a3)); put!(a3.as_::<f32>()); put!(a4.as_::<u8>()); put!(a3.numcast::<i8>()); put!(a2.numcast::<u64>());
                put!(a2.determine_side(b2, v2!())); put!(a3.map(|x| x / 2 as T)); put!(a4.into_iter().rev().collect::<Vec4<T>>()); put!(a3.into_iter().sum::<T>());
                let r3 = rm::Mat3::<T>::new(i!(), i!(), i!(), i!(), i!(), i!(), i!(), i!(), i!());
                let c3 = cm::Mat3::<T>::from(r3);
                let c2 = cm::Mat2::<T>::new(i!(), i!(), i!(), i!());
                put!(r3 * r3); put!(c3 * c3); put!(r3 * c3); put!(c3 * a3); put!(a3 * r3); put!(r3.transposed()); put!(c3.determinant()); put!(c2.determinant()); put!(c3[(1, 2)]); put!(r3.into_col_array()); put!(cm::Mat4::<T>::from(c3)); put!(cm::Mat4::<T>::translation_3d(a3) * cm::Mat4::<T>::scaling_3d(b3)); put!(c3 + c3); put!(c3 * k);
                let bx = Aabr { min: a2, max: b2 }.made_valid();
                let by = Aabr { min: v2!(), max: v2!() }.made_valid();
                put!(bx.union(by)); put!(bx.intersection(by)); put!(bx.contains_point(v2!())); put!(bx.collides_with_aabr(by)); put!(bx.contains_aabr(by)); put!(bx.size()); put!(bx.into_rect()); put!(bx.expanded_to_contain_point(v2!())); put!(bx.split_at_x(bx.min.x));
                let ra = Rect::<T, T>::new(i!(), i!(), nz!(), nz!());
                put!(ra.into_aabr()); put!(ra.contains_point(v2!())); put!(ra.collides_with_rect(Rect::new(i!(), i!(), nz!(), nz!()))); put!(ra.union(Rect::new(i!(), i!(), nz!(), nz!())));
                put!(<T as Lerp<f32>>::lerp(i!(), i!(), rng.unit() as f32)); put!(<T as Lerp<f64>>::lerp_unclamped_precise(i!(), i!(), rng.unit()));
            }
        }
    };
}

int_workload!(ints_i32, i32, 40, true, "int_i32");
int_workload!(ints_i64, i64, 1000, true, "int_i64");
int_workload!(ints_u8, u8, 5, false, "int_u8");
int_workload!(ints_i16, i16, 12, true, "int_i16");
int_workload!(ints_u32, u32, 40, false, "int_u32");


// ------------------------------------------------------------------ ownership and out-of-range sections
// (added after seeded changes C18_O / C03_O: a feature-gated body of a conversion that drops its
// elements twice, a feature-gated Index impl that reads a neighbouring element instead of panicking)

thread_local! {
    static DROPS: std::cell::RefCell<Vec<u32>> = std::cell::RefCell::new(Vec::new());
}
/// a non-Copy element without heap memory: dropping it twice is counted, not a crash
#[derive(Debug, PartialEq)]
pub struct Tok(pub usize);
impl Tok {
    fn mint(n: usize) -> Vec<Tok> {
        DROPS.with(|d| {
            let mut d = d.borrow_mut();
            d.clear();
            d.resize(n, 0);
        });
        (0..n).map(Tok).collect()
    }
    fn counts() -> Vec<u32> {
        DROPS.with(|d| d.borrow().clone())
    }
}
impl Drop for Tok {
    fn drop(&mut self) {
        DROPS.with(|d| {
            if let Some(c) = d.borrow_mut().get_mut(self.0) {
                *c += 1;
            }
        });
    }
}
impl Default for Tok {
    fn default() -> Self {
        Tok(usize::MAX)
    }
}

pub fn ownership(s: &mut Sections) {
    macro_rules! put { ($e:expr) => { { let r = std::panic::catch_unwind(std::panic::AssertUnwindSafe(|| format!("{:?}", $e))).ok(); s.put("own", r) } }; }
    macro_rules! arr { ($n:expr) => {{ let v = Tok::mint($n); let a: [Tok; $n] = v.try_into().unwrap(); a }}; }
    macro_rules! vec_kind {
        ($V:ident, $n:expr) => {{
            // array -> vector -> drop; -> array; -> iterator consumed from both ends with the rest dropped
            put!({ let v = $V::<Tok>::from(arr!($n)); let ids: Vec<usize> = v.iter().map(|t| t.0).collect(); drop(v); (ids, Tok::counts()) });
            put!({ let v = $V::<Tok>::from(arr!($n)); let a = v.into_array(); let ids: Vec<usize> = a.iter().map(|t| t.0).collect(); let mid = Tok::counts(); drop(a); (ids, mid, Tok::counts()) });
            for f in 0..=$n {
                for b in 0..=($n - f) {
                    put!({
                        let mut it = $V::<Tok>::from(arr!($n)).into_iter();
                        let mut got = Vec::new();
                        for _ in 0..f { got.push(it.next().map(|t| t.0)); }
                        for _ in 0..b { got.push(it.next_back().map(|t| t.0)); }
                        let l = it.len();
                        let mid = Tok::counts();
                        drop(it);
                        (got, l, mid, Tok::counts())
                    });
                }
            }
            // a lent source longer than the vector: what is left in it afterwards
            put!({ let mut src = Tok::mint($n + 2).into_iter(); let v: $V<Tok> = src.by_ref().collect(); let left: Vec<usize> = src.map(|t| t.0).collect(); let ids: Vec<usize> = v.iter().map(|t| t.0).collect(); drop(v); (ids, left, Tok::counts()) });
            put!({ let v: $V<Tok> = Tok::mint($n - 1).into_iter().collect(); let ids: Vec<usize> = v.iter().map(|t| t.0).collect(); drop(v); (ids, Tok::counts()) });
            put!({ let v = $V::<Tok>::from(arr!($n)).map(|t| { let id = t.0; std::mem::forget(t); Tok(id) }); let ids: Vec<usize> = v.iter().map(|t| t.0).collect(); drop(v); (ids, Tok::counts()) });
            put!({ let v = $V::<Tok>::from(arr!($n)); let sl: Vec<usize> = v.as_slice().iter().map(|t| t.0).collect(); (sl, v.as_slice().len(), v.as_slice().as_ptr() as usize == &v as *const _ as usize) });
        }};
    }
    vec_kind!(Vec2, 2);
    vec_kind!(Vec3, 3);
    vec_kind!(Vec4, 4);
    vec_kind!(Extent2, 2);
    vec_kind!(Extent3, 3);
    put!({ let t: (Tok, Tok, Tok) = Vec3::<Tok>::from(arr!(3)).into_tuple(); let ids = (t.0 .0, t.1 .0, t.2 .0); drop(t); (ids, Tok::counts()) });
    put!({ let a = arr!(4); let [p, q, r, w] = a; let v = Vec4::<Tok>::from((p, q, r, w)); let ids: Vec<usize> = v.iter().map(|t| t.0).collect(); drop(v); (ids, Tok::counts()) });
    macro_rules! mat_kind {
        ($M:ty, $n:expr) => {{
            put!({ let m = <$M>::from_row_array(arr!($n * $n)); let a = m.into_row_array(); let ids: Vec<usize> = a.iter().map(|t| t.0).collect(); let mid = Tok::counts(); drop(a); (ids, mid, Tok::counts()) });
            put!({ let m = <$M>::from_col_array(arr!($n * $n)); let a = m.into_row_array(); let ids: Vec<usize> = a.iter().map(|t| t.0).collect(); let mid = Tok::counts(); drop(a); (ids, mid, Tok::counts()) });
            put!({ let m = <$M>::from_row_array(arr!($n * $n)); let a = m.into_col_arrays(); let ids: Vec<Vec<usize>> = a.iter().map(|r| r.iter().map(|t| t.0).collect()).collect(); drop(a); (ids, Tok::counts()) });
            put!({ let m = <$M>::from_col_array(arr!($n * $n)); let a = m.into_row_arrays(); let ids: Vec<Vec<usize>> = a.iter().map(|r| r.iter().map(|t| t.0).collect()).collect(); drop(a); (ids, Tok::counts()) });
            put!({ let m = <$M>::from_row_array(arr!($n * $n)); let t = m.transposed(); let a = t.into_row_array(); let ids: Vec<usize> = a.iter().map(|t| t.0).collect(); drop(a); (ids, Tok::counts()) });
            put!({ let m = <$M>::from_row_array(arr!($n * $n)); drop(m); Tok::counts() });
        }};
    }
    mat_kind!(rm::Mat2<Tok>, 2);
    mat_kind!(cm::Mat2<Tok>, 2);
    mat_kind!(rm::Mat3<Tok>, 3);
    mat_kind!(cm::Mat3<Tok>, 3);
    mat_kind!(rm::Mat4<Tok>, 4);
    mat_kind!(cm::Mat4<Tok>, 4);
}

pub fn out_of_range(s: &mut Sections) {
    macro_rules! put { ($e:expr) => { { let r = std::panic::catch_unwind(std::panic::AssertUnwindSafe(|| format!("{:?}", $e))).ok(); s.put("oob", r) } }; }
    macro_rules! mat_kind {
        ($M:ty, $n:expr) => {{
            let mut k = 0i32;
            let m = <$M>::identity().map(|_| { k += 1; k });
            for i in 0..($n + 3) {
                for j in 0..($n + 3) {
                    put!(m[(i, j)]);
                    put!({ let mut w = m; w[(i, j)] = -7; w });
                }
            }
        }};
    }
    mat_kind!(rm::Mat2<i32>, 2);
    mat_kind!(cm::Mat2<i32>, 2);
    mat_kind!(rm::Mat3<i32>, 3);
    mat_kind!(cm::Mat3<i32>, 3);
    mat_kind!(rm::Mat4<i32>, 4);
    mat_kind!(cm::Mat4<i32>, 4);
    let v4 = Vec4::new(1i32, 2, 3, 4);
    let v3 = Vec3::new(1i32, 2, 3);
    let v2 = Vec2::new(1i32, 2);
    for i in 0..7usize {
        put!(v4[i]); put!(v3[i]); put!(v2[i]); put!(v4.as_slice().get(i)); put!(v3.get(i)); put!(Extent3::new(5i32, 6, 7)[i]);
        put!({ let mut w = v4; w[i] = 9; w });
    }
    for mask in [0usize, 1, 3, 4, 5, 27, 255, 256, usize::MAX] {
        put!(v4.shuffled(mask));
    }
    for idx in [(0usize, 1usize, 2usize, 3usize), (4, 5, 6, 7), (3, 3, 9, 1), (usize::MAX, 0, 0, 0)] {
        put!(v4.shuffled(idx)); put!(Vec4::shuffle_lo_hi(v4, v4 * 10, idx));
    }
}

pub fn run(seed: u64, iters: usize) -> Sections {
    let mut s = Sections(BTreeMap::new(), 0);
    let mut rng = Rng::new(seed);
    floats_f32(&mut s, &mut rng, iters);
    floats_f64(&mut s, &mut rng, iters);
    ints_i32(&mut s, &mut rng, iters);
    ints_i64(&mut s, &mut rng, iters);
    ints_u8(&mut s, &mut rng, iters);
    ints_i16(&mut s, &mut rng, iters);
    ints_u32(&mut s, &mut rng, iters);
    ownership(&mut s);
    out_of_range(&mut s);
    s
}

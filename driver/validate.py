#!/usr/bin/env python3
"""Validate MANIFEST.json and every evidence file against the schemas in /root/.vp (uses the tooling venv's jsonschema)."""
import json, sys, glob
import jsonschema
ok = True
m = json.load(open('/verif/MANIFEST.json'))
try:
    jsonschema.validate(m, json.load(open('/root/.vp/MANIFEST.schema.json')))
    print('MANIFEST ok:', len(m['checks']), 'checks,', len(m.get('not_applicable', [])), 'not_applicable')
except Exception as e:
    ok = False; print('MANIFEST INVALID', e)
sch = json.load(open('/root/.vp/EVIDENCE.schema.json'))
for p in sorted(glob.glob('/verif/evidence/*.json')):
    try:
        ev = json.load(open(p)); jsonschema.validate(ev, sch)
        print(p, 'ok', ev['tier'], ev['coverage']['evaluations'], ev['coverage']['distinct_nontrivial'])
    except Exception as e:
        ok = False; print(p, 'INVALID', str(e)[:300])
sys.exit(0 if ok else 1)

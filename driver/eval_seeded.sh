#!/bin/bash
# Run the registered check of each seeded change's property against /repo with the change applied
# (git apply ... ; ./check ; git checkout -- .) and record the outcome in seeded/<name>/result.json.
#   driver/eval_seeded.sh [tier] [names...]
# Never run while anything else is building from /repo (vp run uses /repo itself).
TIER=${1:-quick}; shift
cd "$(dirname "$(readlink -f "$0")")/.." || exit 2
NAMES="$@"; [ -z "$NAMES" ] && NAMES=$(ls seeded | grep -v RESULTS)
for n in $NAMES; do
  d=seeded/$n; [ -f $d/patch.diff ] || continue
  prop=$(python3 -c "import json; print(json.load(open('$d/meta.json'))['property'])")
  out=$(driver/try_patch.sh $d/patch.diff $TIER $prop 2>&1)
  rc=$(echo "$out" | grep -oE "^$prop rc=[0-9]+" | head -1 | sed 's/.*rc=//')
  nv=$(echo "$out" | grep -c "^VIOLATION")
  first=$(echo "$out" | grep -A1 "^VIOLATION" | grep -v "^VIOLATION" | head -1 | cut -c1-400)
  echo "$n :: $prop rc=$rc violations=$nv :: $(echo "$first" | cut -c1-260)"
  python3 - "$d" "$prop" "$TIER" "$rc" "$nv" "$first" "${VERIF_SKIP_MIRI:-}" <<'PY'
import json,sys
d,prop,tier,rc,nv,first,skip=sys.argv[1:8]
json.dump({"check":f"./check {prop} --tier {tier}"+(" (Miri/memcheck skipped)" if skip else ""),"exit_code":int(rc or -1),"violation_lines":int(nv),"caught":rc=="1","first_witness":first.strip()},open(d+"/result.json","w"),indent=1)
PY
done

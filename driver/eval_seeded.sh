#!/bin/bash
# Run the registered quick check of each seeded change's property against /repo with the change
# applied (git apply ... ; check ; git checkout -- .).  driver/eval_seeded.sh [tier] [names...]
TIER=${1:-quick}; shift
cd "$(dirname "$(readlink -f "$0")")/.." || exit 2
NAMES="$@"; [ -z "$NAMES" ] && NAMES=$(ls seeded | grep -v RESULTS)
for n in $NAMES; do
  d=seeded/$n; [ -f $d/patch.diff ] || continue
  prop=$(python3 -c "import json; print(json.load(open('$d/meta.json'))['property'])")
  out=$(driver/try_patch.sh $d/patch.diff $TIER $prop 2>&1)
  rc=$(echo "$out" | grep -oE "^$prop rc=[0-9]+" | head -1)
  nv=$(echo "$out" | grep -c "^VIOLATION")
  first=$(echo "$out" | grep -A1 "^VIOLATION" | grep -v "^VIOLATION" | head -1 | cut -c1-260)
  echo "$n :: $rc violations=$nv :: $first"
done

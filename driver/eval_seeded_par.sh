#!/bin/bash
# Parallel version of eval_seeded.sh for re-validating many seeded changes at once.
#   driver/eval_seeded_par.sh <lanes> <tier> [names...]
# Each lane is a scratch copy under /tmp/vlane<k>: a detached git worktree of /repo's HEAD plus a
# copy of /verif (without target/, evidence/, replays/) whose path dependencies and drivers point at
# that worktree, with its own target directory.  The lane applies one seeded patch at a time to ITS
# worktree, runs the copied ./check, records seeded/<name>/result.json in /verif, and restores.
# /repo itself is never touched.  Lanes and their build output are removed at the end.
# (The registered checks and the committed evidence always run against /repo itself; this is
# only the machinery that validates the monitors against the seeded changes.)
LANES=${1:-4}; TIER=${2:-quick}; shift 2
V=/verif
NAMES="$@"; [ -z "$NAMES" ] && NAMES=$(ls $V/seeded | grep -v RESULTS)
# longest first (C20, C18, C02 dominate), then round-robin
ORDERED=$(for n in $NAMES; do case $n in C20*) w=1;; C18*) w=2;; C02*|C03*|C11*) w=3;; *) w=4;; esac; echo "$w $n"; done | sort | awk '{print $2}')
i=0; for n in $ORDERED; do L[$((i % LANES))]+=" $n"; i=$((i+1)); done

lane() {
  k=$1; shift
  D=/tmp/${LANE_PREFIX:-vlane}$k
  rm -rf $D; mkdir -p $D
  git -C /repo worktree prune
  git -C /repo worktree add -q --detach $D/repo HEAD || return 2
  rsync -a --exclude target --exclude evidence --exclude replays --exclude .git $V/ $D/verif/
  grep -rlE "/repo|/verif" $D/verif/check $D/verif/driver $D/verif/setup.sh $D/verif/harness/Cargo.toml $D/verif/harness/*/Cargo.toml $D/verif/harness/.cargo/config.toml 2>/dev/null \
    | xargs sed -i "s|/verif|$D/verif|g; s|\"/repo\"|\"$D/repo\"|g; s|/repo/|$D/repo/|g; s|-C /repo|-C $D/repo|g"
  cd $D/verif || return 2
  for n in "$@"; do
    d=$V/seeded/$n; [ -f $d/patch.diff ] || continue
    prop=$(python3 -c "import json; print(json.load(open('$d/meta.json'))['property'])")
    git -C $D/repo checkout -q -- . ; git -C $D/repo apply $d/patch.diff || { echo "$n :: patch does not apply"; continue; }
    out=$(./check "$prop" --tier "$TIER" 2>$D/err_$n.log); rc=$?
    # a change that only exists in some feature configurations (names ending in _O) is also shown to
    # C20's configuration sweep, whose clause "enabling a feature does not change the others" it breaks
    rc20=""; nv20=0; first20=""
    case $n in *_O) if [ "$prop" != "C20" ] && [ -z "$EVAL_NO_C20" -o "$rc" != "1" ] && [ -z "$EVAL_NEVER_C20" ]; then
      out20=$(./check C20 --tier "$TIER" 2>>$D/err_$n.log); rc20=$?
      nv20=$(echo "$out20" | grep -c "^VIOLATION")
      first20=$(echo "$out20" | grep -A1 "^VIOLATION" | grep -v "^VIOLATION" | head -1 | cut -c1-400)
    fi;; esac
    git -C $D/repo checkout -q -- .
    nv=$(echo "$out" | grep -c "^VIOLATION")
    first=$(echo "$out" | grep -A1 "^VIOLATION" | grep -v "^VIOLATION" | head -1 | cut -c1-400)
    echo "$n :: $prop rc=$rc violations=$nv :: $(echo "$first" | cut -c1-200)${rc20:+ :: C20 rc=$rc20 violations=$nv20 :: $(echo "$first20" | cut -c1-160)}"
    python3 - "$d" "$prop" "$TIER" "$rc" "$nv" "$first" "$rc20" "$nv20" "$first20" <<'PY'
import json,sys
d,prop,tier,rc,nv,first,rc20,nv20,first20=sys.argv[1:10]
r={"check":f"./check {prop} --tier {tier}","exit_code":int(rc or -1),"violation_lines":int(nv),"caught":rc=="1","first_witness":first.strip()}
if rc20:
    r["configuration_sweep"]={"check":f"./check C20 --tier {tier}","exit_code":int(rc20),"violation_lines":int(nv20),"caught":rc20=="1","first_witness":first20.strip()}
    r["caught"]=r["caught"] or rc20=="1"
json.dump(r,open(d+"/result.json","w"),indent=1)
PY
  done
  cd /; git -C /repo worktree remove --force $D/repo; rm -rf $D
}
for k in $(seq 0 $((LANES-1))); do lane $k ${L[$k]} & done
wait
git -C /repo worktree prune

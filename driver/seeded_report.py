#!/usr/bin/env python3
"""Write seeded/RESULTS.md from seeded/*/meta.json and seeded/*/result.json."""
import glob, json, os
rows = []
for d in sorted(glob.glob('/verif/seeded/*/')):
    n = os.path.basename(d.rstrip('/'))
    if n.startswith('_') or not os.path.exists(d + 'meta.json'):
        continue  # _observations_*, _rejected_*: notes, not seeded changes
    m = json.load(open(d + 'meta.json'))
    r = json.load(open(d + 'result.json')) if os.path.exists(d + 'result.json') else None
    rows.append((n, m, r))
out = ["# Seeded changes and what the checks say about them", "",
       "Each change was written by an independent sub-agent that saw only the property text and a scratch worktree (nothing from /verif), and was confirmed with `driver/confirm_seed.sh` (demo passes on the clean tree, the library builds with all type features, the pinned 674 tests pass with the patch, the demo fails with the patch). `result.json` is written by `driver/eval_seeded.sh`: the registered check of the property, run against /repo with the patch applied.", "",
       "| change | what was changed | needs | check outcome | first witness |", "|---|---|---|---|---|"]
caught = 0
for n, m, r in rows:
    if r is None:
        oc, w = "not evaluated", ""
    else:
        oc = ("**caught** (exit 1, %d violation lines)" % r["violation_lines"]) if r["caught"] else ("NOT caught (exit %s)" % r["exit_code"])
        if r.get("configuration_sweep"):
            cs = r["configuration_sweep"]
            oc = ("property check: exit %s (the monitors run with `std`; `release-libm` profile included); " % r["exit_code"]) + ("configuration sweep C20: **caught** (%d violation lines)" % cs["violation_lines"] if cs["caught"] else "configuration sweep C20: not caught (exit %s)" % cs["exit_code"])
            if r["exit_code"] == 1:
                oc = "**caught** by the property's own check (exit 1, %d violation lines); " % r["violation_lines"] + oc.split("; ", 1)[1]
            if not w:
                w = cs["first_witness"][:220].replace("|", "\\|")
        if r.get("first_evaluation"):
            oc += "; " + r["first_evaluation"]
        if r.get("note"):
            oc += "; " + r["note"].replace("|", "\\|")
        caught += 1 if r["caught"] else 0
        w = r["first_witness"][:220].replace("|", "\\|")
    out.append("| %s | %s | %s | %s | %s |" % (n, m["summary"][:260].replace("|", "\\|").replace("\n", " "), m.get("needs", "")[:200].replace("|", "\\|").replace("\n", " "), oc, w))
out += ["", "%d of %d seeded changes are caught by the quick tier of their property's check." % (caught, len(rows))]
open('/verif/seeded/RESULTS.md', 'w').write("\n".join(out) + "\n")
print(out[-1])

#!/bin/bash
# driver/adopt_seed.sh <outdir> <name>: copy a confirmed candidate (confirm_seed.sh passed) into seeded/<name>/
O=$1; N=$2
mkdir -p /verif/seeded/$N
cp $O/patch.diff /verif/seeded/$N/patch.diff
[ -f $O/demo.rs ] && cp $O/demo.rs /verif/seeded/$N/demo.rs
[ -f $O/demo.sh ] && cp $O/demo.sh /verif/seeded/$N/demo.sh
python3 - "$O/meta.json" "/verif/seeded/$N/meta.json" <<'PY'
import json,sys
m=json.load(open(sys.argv[1]))
m["origin"]="independent sub-agent given only the property text and a scratch worktree"
m["confirmed"]={"by":"driver/confirm_seed.sh in a scratch worktree","demo_on_clean":"pass","builds_with_all_type_features":True,"pinned_suite_with_patch":"674 passed","demo_with_patch":"fails"}
json.dump(m,open(sys.argv[2],"w"),indent=1)
PY

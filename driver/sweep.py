"""C20, second half: observation of the build in every feature configuration.

For each configuration {std, libm} x (no extra feature, each single feature, each pair, the full
set) of vek's 14 type / interoperability features the *real* stable toolchain builds vek from
/repo's working tree as a dependency of /verif/harness/cfgprobe (default features off, exactly
the listed features on), and the probe is run:

  * a compile error located in /repo/src (or in the probe, i.e. an always-present item vanished)
    in configuration X is a violation; the failing feature set is minimised (greedy removal, each
    step a real build) so that the signature names the smallest set that does not build;
  * `base_digest` (a fixed workload over the API present in every configuration) must be the same
    in every configuration of a base, and every `feature_line` (workload over the items a feature
    adds) must be the same in every configuration that prints it: enabling a feature only adds
    items;
  * an error outside /repo and the probe (dependency does not build, cargo cannot resolve) is a
    harness problem, never a verdict.
"""
import concurrent.futures
import hashlib
import itertools
import os
import queue
import re
import shutil
import subprocess
import threading
import time

FEATURES = ["vec8", "vec16", "vec32", "vec64", "rgb", "rgba", "uv", "uvw", "serde", "mint", "bytemuck", "az", "image", "repr_simd"]
BASES = ["std", "libm"]
WORKERS = 16


def all_configs():
    cfgs = []
    for base in BASES:
        cfgs.append((base, ()))
        for f in FEATURES:
            cfgs.append((base, (f,)))
        for a, b in itertools.combinations(FEATURES, 2):
            cfgs.append((base, (a, b)))
        cfgs.append((base, tuple(FEATURES)))
    return cfgs


def pick(tier, seed):
    cfgs = all_configs()
    if tier == "thorough":
        return cfgs
    # quick: every single feature, the empty and the full set in both bases; every pair in the std
    # base (a pair-specific build break must not depend on the seed), a seed-chosen quarter of the
    # pairs in the libm base
    out = []
    for c in cfgs:
        base, fs = c
        if len(fs) != 2 or base == "std":
            out.append(c)
            continue
        h = hashlib.sha1(f"{seed}|{base}|{'+'.join(fs)}".encode()).digest()
        if h[0] % 4 == 0:
            out.append(c)
    return out


def name_of(cfg):
    base, fs = cfg
    return base + ":" + ("+".join(fs) if fs else "(none)")


class Builder:
    def __init__(self, verif, target_root, log, wide_seed=1, wide_iters=40):
        self.wide_args = [str(wide_seed), str(wide_iters)]
        self.probe = os.path.join(verif, "harness", "cfgprobe")
        self.target_root = target_root
        self.log = log
        lock = os.path.join(self.probe, "Cargo.lock")
        if not os.path.exists(lock) and os.path.exists("/repo/Cargo.lock"):
            shutil.copy("/repo/Cargo.lock", lock)

    def build_and_run(self, cfg, worker):
        """-> dict(status = ok | vek_error | probe_error | other_error | run_error, ...)"""
        base, fs = cfg
        env = dict(os.environ)
        env["CARGO_NET_OFFLINE"] = "true"
        env["CARGO_TARGET_DIR"] = os.path.join(self.target_root, f"w{worker}")
        env.pop("RUSTFLAGS", None)
        env.pop("CARGO_ENCODED_RUSTFLAGS", None)
        env["CARGO_TERM_COLOR"] = "never"
        feats = ",".join((base,) + tuple(fs))
        cmd = ["cargo", "build", "--offline", "-q", "--no-default-features", "--features", feats]
        t0 = time.time()
        try:
            r = subprocess.run(cmd, cwd=self.probe, env=env, stdout=subprocess.PIPE, stderr=subprocess.STDOUT, text=True, timeout=1800)
        except subprocess.TimeoutExpired:
            return {"status": "other_error", "detail": "cargo build timed out", "cmd": " ".join(cmd), "secs": time.time() - t0}
        secs = time.time() - t0
        replay = f"cd {self.probe} && CARGO_TARGET_DIR=/tmp/c20_replay cargo build --offline --no-default-features --features {feats}"
        if r.returncode != 0:
            out = r.stdout
            errs = re.findall(r"(error(?:\[E\d+\])?: [^\n]+)\n\s+--> ([^\n]+)", out)
            in_vek = "could not compile `vek`" in out
            in_probe = "could not compile `cfgprobe`" in out
            if in_vek and errs:
                m, loc = errs[0]
                return {"status": "vek_error", "detail": f"{m} at {loc.strip()}", "loc": re.sub(r":\d+:\d+$", "", loc.strip()).replace("/repo/", ""), "n_errors": len(errs), "cmd": replay, "secs": secs, "log": out[-3000:]}
            if in_probe and errs:
                m, loc = errs[0]
                return {"status": "probe_error", "detail": f"{m} at {loc.strip()}", "loc": "cfgprobe", "n_errors": len(errs), "cmd": replay, "secs": secs, "log": out[-3000:]}
            return {"status": "other_error", "detail": out[-1500:], "cmd": replay, "secs": secs}
        exe = os.path.join(env["CARGO_TARGET_DIR"], "debug", "cfgprobe")
        try:
            rr = subprocess.run([exe] + self.wide_args, stdout=subprocess.PIPE, stderr=subprocess.PIPE, text=True, timeout=120)
        except subprocess.TimeoutExpired:
            return {"status": "run_error", "detail": "probe timed out", "cmd": replay, "secs": secs}
        if rr.returncode != 0 and "panicked at" in rr.stderr:
            # the probe's fixed workload panicked in this configuration (judged below against the base configuration)
            msg = re.search(r"panicked at ([^\n]*)\n([^\n]*)", rr.stderr)
            return {"status": "probe_panic", "detail": (msg.group(1) + ": " + msg.group(2)) if msg else rr.stderr[-300:], "cmd": replay, "secs": secs}
        if rr.returncode < 0:
            # killed by a signal (abort, segmentation fault): judged below like a panic, against the base
            # configuration - a workload that runs to completion there and dies here was changed by the features
            return {"status": "probe_panic", "detail": f"the probe was killed by signal {-rr.returncode}: {rr.stderr[-300:]}", "cmd": replay, "secs": secs}
        if rr.returncode != 0:
            return {"status": "run_error", "detail": f"probe exited with {rr.returncode}: {rr.stderr[-800:]}", "cmd": replay, "secs": secs}
        m = re.search(r"base_digest=([0-9a-f]+) base_values=(\d+)", rr.stdout)
        if not m:
            return {"status": "run_error", "detail": "probe printed no digest", "cmd": replay, "secs": secs}
        lines = {}
        for l in re.findall(r"feature_line=([^\n]+)", rr.stdout):
            label, _, val = l.partition(" ")
            lines[label] = val
        sections = {}
        for name, dg, nv in re.findall(r"section=(\S+) digest=([0-9a-f]+) values=(\d+)", rr.stdout):
            sections[name] = (dg, int(nv))
        if not sections:
            return {"status": "run_error", "detail": "probe printed no section digest", "cmd": replay, "secs": secs}
        mp = re.search(r"wide_calls_that_panicked=(\d+)", rr.stdout)
        return {"status": "ok", "digest": m.group(1), "values": int(m.group(2)), "lines": lines, "sections": sections, "wide_panics": int(mp.group(1)) if mp else 0,
                "cmd": replay, "run": f"/tmp/c20_replay/debug/cfgprobe {' '.join(self.wide_args)}", "secs": secs}


def run(prop, tier, seed, rundir, verif, log):
    t_start = time.time()
    target_root = os.path.join(os.environ.get("VERIF_TARGET_DIR") or os.path.join(verif, "target"), "sweep")
    os.makedirs(target_root, exist_ok=True)
    wide_iters = 40 if tier == "quick" else 400
    b = Builder(verif, target_root, log, wide_seed=seed & 0xFFFFFFFF, wide_iters=wide_iters)
    cfgs = pick(tier, seed)
    results = {}
    q = queue.Queue()
    # heavy ones first
    for c in sorted(cfgs, key=lambda c: -len(c[1])):
        q.put(c)
    lock = threading.Lock()

    def worker(k):
        while True:
            try:
                c = q.get_nowait()
            except queue.Empty:
                return
            r = b.build_and_run(c, k)
            with lock:
                results[c] = r
                if r["status"] != "ok":
                    log(f"[sweep {name_of(c)}] {r['status']} {r.get('detail','')[:160]}")

    threads = [threading.Thread(target=worker, args=(k,)) for k in range(WORKERS)]
    for t in threads:
        t.start()
    for t in threads:
        t.join()
    log(f"[sweep] {len(results)} configurations built in {time.time()-t_start:.0f}s")

    viols, probs = [], []
    # ---- build failures: minimise the failing set
    failing = {c: r for c, r in results.items() if r["status"] in ("vek_error", "probe_error")}
    minimal = {}  # frozenset(features) -> info
    memo = {}

    def fails(base, fs):
        key = (base, tuple(sorted(fs, key=FEATURES.index)))
        if key in results:
            r = results[key]
        elif key in memo:
            r = memo[key]
        else:
            r = b.build_and_run(key, 0)
            memo[key] = r
        return r if r["status"] in ("vek_error", "probe_error") else None

    for (base, fs), r in sorted(failing.items(), key=lambda kv: len(kv[0][1])):
        # already explained by a smaller failing set found before?
        if any(set(ms) <= set(fs) and info["loc"] == r.get("loc", r["status"]) for ms, info in minimal.items()):
            for ms, info in minimal.items():
                if set(ms) <= set(fs) and info["loc"] == r.get("loc", r["status"]):
                    info["configs"].append(name_of((base, fs)))
                    info["bases"].add(base)
                    break
            continue
        cur = list(fs)
        changed = True
        last = r
        while changed and len(cur) > 0:
            changed = False
            for f in list(cur):
                trial = [x for x in cur if x != f]
                rr = fails(base, trial)
                if rr is not None and rr.get("loc", rr["status"]) == r.get("loc", r["status"]):
                    cur = trial
                    last = rr
                    changed = True
                    break
        ms = tuple(sorted(cur, key=FEATURES.index))
        minimal[ms] = {"loc": r.get("loc", r["status"]), "status": r["status"], "detail": last["detail"], "cmd": last["cmd"], "n_errors": last.get("n_errors", 0), "configs": [name_of((base, fs))], "bases": {base}, "log": last.get("log", "")}
    for ms, info in minimal.items():
        # does the same set build in the other base?  (only then the base is part of the signature)
        bases_failing = set()
        for base in BASES:
            if fails(base, list(ms)) is not None:
                bases_failing.add(base)
        basetag = "" if bases_failing == set(BASES) else ("[" + "+".join(sorted(bases_failing)) + " only]")
        what = ("features=" + ("+".join(ms) if ms else "(none)") + basetag)
        cls = "build_error" if info["status"] == "vek_error" else "missing_item"
        api = "cargo build (stable)" if info["status"] == "vek_error" else "cfgprobe (always-present API)"
        viols.append({
            "sub": "config_sweep", "api": api, "ty": info["loc"], "class": cls,
            "sig": f"{prop}|{api}|{info['loc']}|{cls}|{what}",
            "detail": f"vek does not build with {what} on the stable toolchain: {info['detail']} ({info['n_errors']} errors); smallest failing feature set found by greedy removal; {len(info['configs'])} swept configuration(s) fail because of it, e.g. {info['configs'][:4]}",
            "profile": "stable-build", "case_seed": seed, "case_index": None, "replay_cmd": info["cmd"],
        })
    # ---- harness-side failures
    for c, r in results.items():
        if r["status"] in ("other_error", "run_error"):
            probs.append(f"config sweep {name_of(c)}: {r['status']}: {r['detail'][:300]}")
    # ---- behaviour: digest identical within a base; feature lines identical wherever printed
    ok = {c: r for c, r in results.items() if r["status"] == "ok"}
    # a workload that runs to completion in the base configuration but panics once features are
    # enabled: the features changed the behaviour of always-present items
    panicking = {c: r for c, r in results.items() if r["status"] == "probe_panic"}
    for (bb, fs), r in panicking.items():
        if (bb, ()) not in ok:
            probs.append(f"config sweep {name_of((bb, fs))}: the probe panicked and the base configuration gives no reference: {r['detail'][:300]}")
            continue
        culprit = fs
        for sub in sorted((k for k in panicking if k[0] == bb and set(k[1]) <= set(fs)), key=lambda k: len(k[1])):
            culprit = sub[1]
            break
        what = "features=" + "+".join(culprit)
        viols.append({
            "sub": "config_sweep", "api": "cfgprobe base workload", "ty": bb, "class": "behaviour_changed",
            "sig": f"{prop}|cfgprobe base workload|{bb}|behaviour_changed|panic:{what}",
            "detail": f"the fixed workload over the always-present API runs to completion with {bb}:(none) but panics with {name_of((bb, fs))} ({r['detail'][:300]}): enabling {what} changes the behaviour of other items",
            "profile": "stable-build", "case_seed": seed, "case_index": None, "replay_cmd": r["cmd"] + " && /tmp/c20_replay/debug/cfgprobe",
        })
    for base in BASES:
        ref = ok.get((base, ()))
        if ref is None:
            if (base, ()) in results and results[(base, ())]["status"] in ("vek_error", "probe_error"):
                continue
            probs.append(f"config sweep: base configuration {base} produced no digest")
            continue
        for (bb, fs), r in ok.items():
            if bb != base or r["digest"] == ref["digest"]:
                continue
            # attribute to the smallest observed feature subset that changes the digest
            culprit = fs
            for sub in sorted((k for k in ok if k[0] == base and set(k[1]) <= set(fs) and ok[k]["digest"] != ref["digest"]), key=lambda k: len(k[1])):
                culprit = sub[1]
                break
            what = "features=" + "+".join(culprit)
            viols.append({
                "sub": "config_sweep", "api": "cfgprobe base workload", "ty": base, "class": "behaviour_changed",
                "sig": f"{prop}|cfgprobe base workload|{base}|behaviour_changed|{what}",
                "detail": f"the fixed workload over the always-present API prints digest {r['digest']} with {name_of((bb, fs))} but {ref['digest']} with {base}:(none): enabling {what} changes the behaviour of other items",
                "profile": "stable-build", "case_seed": seed, "case_index": None, "replay_cmd": r["cmd"] + " && /tmp/c20_replay/debug/cfgprobe",
            })
    # ---- the wide differential workload: every section digest identical within a base; the sections without
    # transcendental functions (everything but trig_*) identical between the bases as well
    # The sections that call transcendental functions depend on the float backend num-traits was built
    # with.  That is `std` whenever the std feature is on anywhere in the dependency graph: the `image`
    # crate switches num-traits/std on by itself (cargo feature unification), so `libm + image` computes
    # sin/cos with std like the std base does.  (First version of this comparison raised a false alarm
    # here: a last-bit difference in sin/cos between libm:(none) and libm:image is the backend, not vek.)
    def backend(cfg):
        return "std" if cfg[0] == "std" or "image" in cfg[1] else "libm"

    def differing(r, ref, cross_base, trig_ref=None):
        out = []
        for name, (dg, nv) in sorted(ref["sections"].items()):
            if name.startswith("trig_"):
                if cross_base:
                    continue
                if trig_ref is not None:
                    dg = trig_ref["sections"].get(name, (None, 0))[0]
            got = r["sections"].get(name)
            if got is None or got[0] != dg:
                out.append(name)
        return out

    sections_compared = 0
    for base in BASES:
        ref = ok.get((base, ()))
        if ref is None:
            continue
        for (bb, fs), r in ok.items():
            if bb != base:
                continue
            sections_compared += len(ref["sections"])
            tref = ok.get((backend((bb, fs)), ()))
            if tref is None:
                tref = r  # no reference for this backend: the trig sections of this configuration are not compared
            diff = differing(r, ref, False, tref)
            if not diff:
                continue
            culprit = fs
            for sub in sorted((k for k in ok if k[0] == base and set(k[1]) <= set(fs) and differing(ok[k], ref, False, ok.get((backend(k), ())) or ok[k])), key=lambda k: len(k[1])):
                culprit = sub[1]
                break
            what = "features=" + "+".join(culprit)
            viols.append({
                "sub": "config_sweep", "api": "cfgprobe wide workload", "ty": base, "class": "behaviour_changed",
                "sig": f"{prop}|cfgprobe wide workload|{base}|behaviour_changed|{what}",
                "detail": f"the pseudo-random workload over the always-present API (seed {b.wide_args[0]}, {b.wide_args[1]} iterations) gives different results in section(s) {diff} with {name_of((bb, fs))} than with {base}:(none): enabling {what} changes the behaviour of other items",
                "profile": "stable-build", "case_seed": seed, "case_index": None, "replay_cmd": r["cmd"] + " && " + r["run"],
            })
    ref_std, ref_libm = ok.get(("std", ())), ok.get(("libm", ()))
    if ref_std is not None and ref_libm is not None:
        diff = differing(ref_libm, ref_std, True)
        if ref_libm["digest"] != ref_std["digest"]:
            diff = ["base_digest"] + diff
        sections_compared += len([n for n in ref_std["sections"] if not n.startswith("trig_")])
        if diff:
            viols.append({
                "sub": "config_sweep", "api": "cfgprobe wide workload", "ty": "std|libm", "class": "behaviour_changed",
                "sig": f"{prop}|cfgprobe wide workload|std-vs-libm|behaviour_changed|features=libm",
                "detail": f"the workload over the always-present API (seed {b.wide_args[0]}, {b.wide_args[1]} iterations; sections without transcendental functions) gives different results in section(s) {diff} with libm:(none) than with std:(none): choosing the libm feature instead of std changes the behaviour of items that call no transcendental function",
                "profile": "stable-build", "case_seed": seed, "case_index": None, "replay_cmd": ref_libm["cmd"] + " && " + ref_libm["run"],
            })
    seen_lines = {}
    for (bb, fs), r in sorted(ok.items(), key=lambda kv: len(kv[0][1])):
        for label, val in r["lines"].items():
            if label not in seen_lines:
                seen_lines[label] = (val, (bb, fs))
            elif seen_lines[label][0] != val:
                first_val, first_cfg = seen_lines[label]
                viols.append({
                    "sub": "config_sweep", "api": f"cfgprobe feature workload {label}", "ty": "-", "class": "behaviour_changed",
                    "sig": f"{prop}|cfgprobe feature workload {label}|-|behaviour_changed|differs_between_configurations",
                    "detail": f"the workload over the items of '{label}' prints '{val[:200]}' with {name_of((bb, fs))} but '{first_val[:200]}' with {name_of(first_cfg)}",
                    "profile": "stable-build", "case_seed": seed, "case_index": None, "replay_cmd": r["cmd"] + " && /tmp/c20_replay/debug/cfgprobe",
                })
    # dedupe violations by signature (keep first)
    uniq = {}
    for v in viols:
        uniq.setdefault(v["sig"], v)
    viols = list(uniq.values())

    n_ok = len(ok)
    ev = {
        "tool": "cargo build (stable toolchain) + cfgprobe",
        "evaluations": len(results) + len(memo),
        "distinct_nontrivial": len({c for c in results if len(c[1]) >= 1}),
        "rule": f"{len(results)} of the 214 configurations {{std,libm}} x (none, 14 singles, 91 pairs, full set) built with the stable toolchain from /repo's working tree and probed ({'all of them' if tier == 'thorough' else 'none + singles + full in both bases, all 91 pairs with std, a seed-chosen quarter of the pairs with libm'}); {len(memo)} further builds to minimise failing sets; distinct = configurations, non-trivial = at least one optional feature",
        "configurations_built": len(results),
        "configurations_ok": n_ok,
        "configurations_failing": len(failing),
        "minimal_failing_sets": ["+".join(ms) for ms in minimal],
        "digests": {base: sorted({r["digest"] for (bb, _), r in ok.items() if bb == base}) for base in BASES},
        "feature_lines_compared": len(seen_lines),
        "base_values_hashed": max([r["values"] for r in ok.values()] or [0]),
        "wide_workload": {"seed": int(b.wide_args[0]), "iterations": int(b.wide_args[1]),
                          "sections": {n: v[1] for n, v in sorted((ok.get(("std", ())) or {"sections": {}})["sections"].items())},
                          "values_hashed_per_configuration": sum(v[1] for v in (ok.get(("std", ())) or {"sections": {}})["sections"].values()),
                          "calls_that_panicked_per_configuration": (ok.get(("std", ())) or {}).get("wide_panics", 0),
                          "section_digests_compared": sections_compared,
                          "cross_base": "all sections except trig_* (transcendental functions) also compared between std:(none) and libm:(none)"},
        "toolchain": subprocess.run(["rustc", "--version"], stdout=subprocess.PIPE, text=True).stdout.strip(),
        "samples": [f"{name_of(c)} -> {r['status']}" + (f" digest {r['digest']} ({len(r['lines'])} feature lines) in {r['secs']:.0f}s" if r["status"] == "ok" else f": {r.get('detail','')[:120]}") for c, r in list(sorted(results.items(), key=lambda kv: -len(kv[0][1])))[:3]],
        "wall_s": round(time.time() - t_start, 1),
    }
    return ev, viols, probs

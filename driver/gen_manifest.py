#!/usr/bin/env python3
"""Regenerate /verif/MANIFEST.json from the table below (one place to keep it consistent)."""
import json
import subprocess

# id -> (claimed?, technique, level text, level note, design section)
T = {
    "C01": ("Sym operation-log monitor + polynomial identity test over GF(p); exact-rational / integer / dyadic-float reference-model monitor; IEEE special-value monitor (NaN, infinities, signed zeros) on f32/f64; badly scaled f32/f64 operands judged with the componentwise bound of a sum of products",
            "Every Mul / element-wise operator impl for Mat2/3/4 in both layouts is executed on free symbols and its complete logged dataflow compared with the textbook sums of products (identity test in all 8/18/32 entries), plus thousands of exact value cases per impl; held-on-observed-executions, not a proof.",
            "by parametricity one traced execution of the generic impl speaks for all inputs of the Sym monomorphisation; transfer to f32/f64/ints assumes vek has no specialisation and is cross-checked by native sweeps"),
    "C02": ("Sym operation-log monitor, structural per-lane comparison; native-type per-lane reference sweeps",
            "Each operator/reduction/constructor of all 13 vector kinds is executed on free symbols; output lane i must be exactly Op(x_i, y_i) (no cross-lane operand), reductions are compared as polynomials/left folds, order-dependent ones on exact rationals and native ints/floats lane by lane.",
            "closures passed to map/apply are observed per call; evaluation order is recorded but only exactly-once and lane mapping are asserted; min/max tie behaviour is the scalar function's (std::cmp / vek::ops::partial_*), observed with elements whose ordering ignores a payload"),
    "C03": ("Tag data-movement monitor: row-major, column-major and abstract model run side by side over random API programs; Miri and valgrind memcheck on the unsafe array conversions and slice views with a heap-owning element",
            "Random programs over the layout-agnostic matrix API are executed on a row-major value, a column-major value and an abstract model; after every step all three are compared through the raw public representation; flat views, Display (also with format specifications) and GL flag included; an index just outside the matrix must panic in both layouts.",
            "the abstract model is written from the documentation; element identity is carried by opaque tokens so any misplaced element is seen regardless of values"),
    "C04": ("exact-rational (Q) and GF(p) monitors with registered angle tokens; f32/f64 sampling with derived tolerance (axes of any length, almost-unit lengths and magnitude ties between components included; 2-D vectors over the whole range of the type)",
            "Rotation builders are executed on exact unit-circle points (c,s) and rational-norm axes (scale factors from 2^-53 to 2^30, float axes over 20 / 120 decades): orthogonality, det=+1, fixed axis, right-handed sense, additivity, scale-invariance in the axis, Mat3/Mat4/Quaternion/Vec2 agreement are checked exactly; arbitrary float angles/axes with tolerance.",
            "identities are exact facts in Q[..]/(c^2+s^2-1); float tier tolerances are 64 eps scaled, ill-conditioned cases are inconclusive"),
    "C05": ("Sym/GF(p) polynomial identity monitors for the algebra; exact-rational unit quaternions; f64 sampling for acos-based extraction",
            "Hamilton algebra laws are decided as polynomial identities on the logged product; rotation of vectors, composition, from-to rotation (incl. exactly antiparallel pairs through both branches) on exact rational inputs and on f32/f64 incl. exactly opposite integer pairs with a non-power-of-two ratio; angle-axis on floats incl. exactly +-identity.",
            "float cases within sqrt(eps) of antiparallel are classed ill-conditioned, never violations; angle-axis extraction is judged at 512 eps everywhere (the extraction problem is well conditioned), small angles and |w| above 1 included"),
    "C06": ("GF(p)/Sym identity test for determinants and the general inverse; exact-rational monitor for the branching affine inverses",
            "Determinants vs the Leibniz expansion as polynomial identities; M*inv(M)=inv(M)*M=I as a rational-function identity at random field points and on structured exact rational matrices (singular sub-blocks, sparse, triangular); fast inverses on T*R[*S] by construction.",
            "matrices with det=0 are outside the domain; the affine fast paths are judged only on matrices that are T*R[*S] by construction"),
    "C07": ("Sym/GF(p) identity monitors for constructors; exact step-list model for builder chains (all chains up to length 3 enumerated, longer sampled); f32/f64 reference-model monitors for builders on structured receivers, point/direction products far from the origin and Transform conversion with orientations a float can hold",
            "Constructors act on points/directions by definition (polynomial identities); every chained *_ed builder equals pre-multiplication; chains apply steps in call order against an independent step list; Transform->Mat4 acts as position + orientation*(scale.p).",
            "rotations inside chains use registered exact angles"),
    "C08": ("exact-rational monitor: the eight view-volume corners through the real matrix and homogeneous divide; f32/f64 corner monitor with a derived tolerance for all 21 constructors",
            "For all 20 constructors x 2 layouts, random off-centre / reversed / negative plane sets and fov tokens: corners map to the clip-volume corners exactly (near planes down to 2^-60), w>0 in front, perspective == frustum of implied planes, LH == RH * z-mirror; the same corners on f32/f64 incl. narrow fields of view.",
            "inputs respect the constructors' debug_assert domains in the checked profile"),
    "C09": ("exact-rational monitor on cameras generated from rational orthonormal frames; f32/f64 sampling incl. whole scenes in astronomical / microscopic units, judged relative to the scene",
            "look_at / model_look_at (lh, rh, deprecated) and basis matrices: rigid, det +1, eye->0, target on the forward axis at distance d, up in the upper half-plane (up vectors from 2^-34 to 2^24 times unit length), model = inverse, origin/axes placement.",
            "cameras are built from rational frames so both normalisations are rational; float tier excludes up nearly parallel to the view direction"),
    "C10": ("exact-rational reference-model monitor for project/unproject; round-trip monitor; picking-matrix corner monitor",
            "Projection to the viewport vs a from-scratch model, unproject(project(p)) = p exactly, for T*R*S, general affine and projective model-views, vek's projections, sparse perturbations of the identity and one-point-perspective matrices, microscopic scenes; picking rectangle corners map to the clip square, documented panics required.",
            "points with clip w = 0 and singular matrix pairs are outside the domain"),
    "C11": ("Sym/GF(p) identity monitors (bilinearity, Lagrange, reflection ...); exact-rational branch-boundary monitor; f64 sampling for acos/sin-based parts",
            "Geometric definitions of cross/dot/normalize/reflect/refract/face_forward/areas/homogenize on all spatial vector kinds, incl. exact branch boundaries (k=0, dot=0); angle_between (magnitudes over 34 / 300 decades, degrees alias) and slerp (incl. extrapolation) on floats with tolerance; exact areas and homogenisation on native integer and float element types.",
            "near-singular slerp inputs are ill-conditioned"),
    "C12": ("exhaustive 8-bit sweep of the integer Lerp impls against an exact rational rounding model; Sym identity monitors for generic lerp; f32/f64 sampling for slerp",
            "All 65 536 (from,to) pairs of i8 and u8 x factor grid x fast/precise x value/ref vs exact round-half-away; wider ints stratified (each formula judged on its own exactness domain, mantissa-wide and equal endpoints included); generic lerp identities; nlerp/slerp unit, shorter arc, constant speed; Transition accessors equal the matching Lerp call.",
            "integer oracle judges only endpoints exactly representable in the factor type and results in range, as the property states"),
    "C13": ("exhaustive grid enumeration against point-set semantics; exact-rational / dyadic-float / unsigned reference-model monitors; distance_to_point over the whole float range (subnormal offsets and exact ties between axes included, absolute tolerance derived from the smallest subnormal)",
            "All boxes with corners on a small grid (valid and invalid) x all second boxes x all grid/half-grid points, 2-D exhaustive and 3-D exhaustive in thorough: every Aabr/Aabb/Rect/Rect3 method is compared pointwise with the set it denotes; all boxes with signed / odd coordinates for centre, size and the rectangle == box equivalence.",
            "methods that assert validity are called only inside their documented domain"),
    "C14": ("Sym/GF(p) polynomial identity monitors with forward-mode derivatives over the logged evaluate",
            "evaluate == Bernstein polynomial in free control points and free t; evaluate_derivative == d/dt of the logged evaluate; split re-parametrises; elevation, matrix form, reversal, flips, matrix*curve commute; an exact value tier with coincident control points at t = 0, 1, inside and outside; quarter circle radius on floats.",
            "identities are decided at random points of GF(2^61-1)"),
    "C15": ("exact-rational monitor on curves constructed per branch of the root finder; f64 grid sampling (nearly parabolic cubics and generic curves in a 2^-20..2^-28 unit, judged relative to their own size, included); search/length monotonicity monitors (length in f64 and, with the summation bound, in f32); bounded-progress monitor: a budgeted f64 element type counts vek's scalar operations and unwinds a search that exceeds 2e7 of them",
            "Extrema parameters in [0,1] and optimal, inflections are derivative zeros inside the interval, boxes in curve coordinates containing and touching the curve, search result no worse than coarse samples, length bounds and refinement monotonicity.",
            "curves are integrated from chosen derivatives so true extrema are known exactly"),
    "C16": ("exact-rational monitors with squared-distance, parametric-minimisation and Cramer-solve oracles; f32/f64 for pi formulas",
            "Containment/collision boundaries hit exactly via Pythagorean offsets; projected point nearest among 257 samples; ray-triangle vs an independent exact solve incl. edges, vertices, parallel rays, both windings; microscopic scenes; bounds evaluated in the element type for large floats and wide-radius integers.",
            "determinants inside vek's epsilon band are outside the domain"),
    "C17": ("exhaustive 2^24 sweeps of every (value, lower, upper) triple of i8/u8/Wrapping against an i32 model, panic-equivalence monitor; stratified wide ints; float boundary sampling",
            "clamp/is_between/wrapped/wrapped_between/pingpong/delta_angle against their range laws for every 8-bit input, documented panics required exactly; wide integers and their Wrapping forms; floats incl. the exact half-turn boundary in degrees and NaN / infinities against the closed-interval test.",
            "cases whose mathematically correct result is not representable are outside the property (as stated)"),
    "C18": ("ownership-ledger monitor (Own) over enumerated iterator histories (ending by drop, by a consuming adaptor whose callback may unwind, or by drop with a panicking element destructor) with the iterator's own cursors read through a cfg hook; Miri and valgrind memcheck on the same workload",
            "All pull sequences over {next,next_back} with observers and drop at every prefix for dims 2..8, covering sets visiting every (front,back) state for 16..64; every element yielded or dropped exactly once, never observed after being yielded; conversions transfer each element once; slice views alias storage.",
            "Miri interprets the real vek code; native runs skip raw illegal frees so the monitor survives to report"),
    "C19": ("Tag data-movement monitor against a table written from the documentation; exhaustive 256 shuffle masks; Sym identity for the embedding/multiplication commutation law",
            "Every From between vector kinds/sizes, swizzles, with_*, homogeneous constructors, unit vectors, all shuffle entry points for all masks and out-of-range indices, colour helpers for every ColorComponent type.",
            "expected tables are transcribed from vek's documentation"),
    "C20": ("per-lane exhaustive 8-bit reference sweeps of the numeric lifts; float-class sweeps of approx lifts (distinct operands, bit-equal copies and the same object on both sides, NaN / infinite lanes); observed stable-toolchain builds of 214 feature configurations, each running a fixed and a pseudo-random differential workload (about 56 000 hashed results over ~500 always-present entry points per configuration) whose per-section digests are compared between configurations",
            "checked/wrapping/saturating/overflowing/Euclid/Inv lifts vs the scalar op per lane (each lane position over all 65 536 operand pairs), casts fail iff one element fails, approx lifts == conjunction; every {std,libm} x single/pair/full feature set is built; a fixed workload and a seeded pseudo-random workload over the always-present API are hashed per section and compared within a base, between std and libm for the sections without transcendental functions, and per float backend for the others.",
            "the 'builds' clause is an observation of the real toolchain on the real tree, one toolchain, one target"),
}

# properties with a check built so far (the rest are listed under not_applicable as pending)
import os
BUILT = [l.strip() for l in open("/verif/driver/built.txt") if l.strip()]

checks = []
for pid in BUILT:
    tech, text, note = T[pid]
    checks.append({
        "property_id": pid,
        "quick_cmd": f"./check {pid} --tier quick",
        "thorough_cmd": f"./check {pid} --tier thorough",
        "evidence_file": f"/verif/evidence/{pid}.json",
        "replay_cmd_template": f"./check {pid} --replay {{path}}",
        "engine": "vek-monitors",
        "level_claimed": {"category": "exploration", "text": text, "design_ref": f"DESIGN.md section 5 ({pid})"},
        "level_note": note,
        "technique": tech,
    })

hooks_commits = []
try:
    out = subprocess.run(["git", "-C", "/repo", "log", "--format=%H %s"], capture_output=True, text=True).stdout
    for line in out.splitlines():
        h, _, s = line.partition(" ")
        if s.startswith("verif-hook:"):
            hooks_commits.append(h)
except Exception:
    pass

manifest = {
    "version": 1,
    "setup_cmd": "./setup.sh",
    "hooks": {
        "guard": "--cfg vek_verif",
        "enable": "the driver builds /verif/harness (vek as a path dependency on /repo) with RUSTFLAGS='--cfg vek_verif'; with the flag absent the hook code is not compiled",
        "baseline_off_cmd": "cd /repo && (cargo nextest run --workspace --no-fail-fast --test-threads 8 --offline || cargo test --workspace --no-fail-fast --offline)",
        "source_commits": hooks_commits,
        "add_only": True,
    },
    "engines": [{
        "name": "vek-monitors",
        "path": "/verif/harness",
        "serves_properties": BUILT,
        "kind_free_text": "runtime monitoring: vek's real generic code is executed on instrumented element types (exact rationals Q, prime-field Fp, operation-logging Sym, identity tokens Tag, ownership-ledger Own) and on native types under exhaustive/boundary/random workloads; oracles are reference models, offline checkers over the operation log, an ownership ledger, Miri and valgrind memcheck",
    }],
    "checks": checks,
    "not_applicable": [
        {"property_id": pid, "reason": "check not built yet in this round (work in progress, see DESIGN.md section 5); not a claim that the technique cannot apply"}
        for pid in sorted(T) if pid not in BUILT
    ],
    "notes": "Exit codes of ./check: 0 held / 1 VIOLATION / 2 harness problem (never a verdict). VERIF_SEED and VERIF_TIER are honoured. Known findings: /verif/known_findings.json.",
}
with open("/verif/MANIFEST.json", "w") as f:
    json.dump(manifest, f, indent=1)
    f.write("\n")
print("MANIFEST.json:", len(checks), "checks;", len(manifest["not_applicable"]), "not_applicable")

#!/bin/bash
# driver/run_all.sh <tier> <seed> [ids...] : run the registered checks one after another, one summary line each
TIER=${1:-quick}; SEED=${2:-1}; shift 2
cd "$(dirname "$(readlink -f "$0")")/.." || exit 2
IDS="$@"; [ -z "$IDS" ] && IDS=$(cat driver/built.txt)
for id in $IDS; do
  t0=$(date +%s)
  out=$(VERIF_SEED=$SEED ./check $id --tier $TIER 2>/tmp/run_all_$id.err); rc=$?
  echo "$id tier=$TIER seed=$SEED rc=$rc $(( $(date +%s)-t0 ))s :: $(echo "$out" | grep -E '^(OK|VIOLATION|KNOWN-FINDING|HARNESS-PROBLEM|BUILD-ERROR)' | head -3 | cut -c1-300 | tr '\n' ' ')"
done

"""Sanitizer / build-sweep tools used by ./check.

* run_miri     : the monitor binary's `--tool miri` workload under `cargo +nightly miri run`
                 (undefined-behaviour interpreter), one process per sub-check / shard.
* run_memcheck : the release binary's `--tool memcheck` workload under valgrind memcheck.
* run_config_sweep : C20's observation of the build in every feature configuration.
"""
import concurrent.futures
import json
import os
import re
import shutil
import subprocess
import time

# what each property runs under Miri: (sub-check name, number of shards)
MIRI_PLAN = {
    "C03": {
        "quick": [("miri_tag_slices", 2), ("miri_own_slices", 2), ("miri_tag_arrays", 3), ("miri_own_arrays", 3), ("array_fns", 4)],
        "thorough": [("miri_tag_slices", 2), ("miri_own_slices", 2), ("miri_tag_arrays", 2), ("miri_own_arrays", 2), ("array_fns", 8)],
    },
    "C18": {
        "quick": [("iter_histories", 10), ("iter_random", 2), ("iter_consume", 6), ("conversions", 2), ("slice_views", 2)],
        "thorough": [("iter_histories", 16), ("iter_random", 6), ("iter_consume", 8), ("conversions", 6), ("slice_views", 4)],
    },
}

UB_KINDS = [
    (r"uninitialized", "uninitialized_memory"),
    (r"has been freed|dangling|use.after.free|dereferenc\w+ .* after", "use_after_free"),
    (r"deallocat\w+ .* (twice|which is already|dangling)|double.free", "double_free"),
    (r"out.of.bounds", "out_of_bounds"),
    (r"constructing invalid value|invalid value", "invalid_value"),
    (r"memory leaked|leaked", "memory_leak"),
    (r"not granting access|borrow stack|tree borrows|protector|retag", "aliasing_violation"),
    (r"unaligned|alignment", "misaligned"),
    (r"data race", "data_race"),
]


def classify_ub(text):
    low = text.lower()
    for pat, kind in UB_KINDS:
        if re.search(pat, low):
            return kind
    return "other_ub"


def short_vek_fn(fn):
    """vek::row_major::Mat4::<T>::into_row_array -> Rows4::into_row_array;
    <vek::vec::repr_c::vec3::IntoIter<T> as Iterator>::next -> vec3::IntoIter::next"""
    plain = fn
    for _ in range(6):
        plain = re.sub(r"<[^<>]*>", "", plain)
    plain = plain.replace("::::", "::").strip(": ")
    last = [s for s in plain.split("::") if s][-1] if plain else fn
    m = re.search(r"(row_major|column_major)::(?:mat\d::)?Mat(\d)", fn)
    if m:
        return f"{'Rows' if m.group(1) == 'row_major' else 'Cols'}{m.group(2)}::{last}"
    m = re.search(r"vek::(?:vec::)?(?:repr_c::)?(vec\d+|extent\d|rgba?|uvw?)::(\w+)", fn)
    if m:
        lastseg = re.search(r"::(\w+)$", fn.strip())
        return f"{m.group(1)}::{m.group(2)}::{lastseg.group(1) if lastseg else last}"
    segs = [s for s in plain.split("::") if s]
    return "::".join(segs[-3:])


def parse_miri_stderr(err):
    """Return (message, first vek frame function, location) or None if no Miri diagnostic."""
    m = re.search(r"error: (Undefined Behavior: [^\n]+|memory leaked[^\n]*|unsupported operation: [^\n]+|the evaluated program (?:leaked|aborted)[^\n]*|[^\n]*abnormal termination[^\n]*)", err)
    if not m:
        return None
    msg = m.group(1).strip()
    tail = err[m.start():]
    frames = re.findall(r"\n\s*\d+: ([^\n]+)\n\s+at ([^\n]+)", tail)
    frames += re.findall(r"inside `([^`]+)` at ([^\n]+)", tail)
    vek_fn, vek_loc = None, None
    for f, loc in frames:
        if "/repo/src/" in loc:
            vek_fn, vek_loc = f.strip(), loc.strip()
            break
    if vek_fn is None:
        loc0 = re.search(r"--> (/repo/src/[^\n]+)", tail)
        if loc0:
            vek_loc = loc0.group(1).strip()
            vek_fn = "vek (" + vek_loc.split("/repo/")[-1] + ")"
    return msg, vek_fn, vek_loc


def run_miri(prop, binname, tier, seed, rundir, env_for_build, harness, target, log):
    plan = MIRI_PLAN.get(prop, {}).get(tier, [])
    evidence = {"tool": "miri", "evaluations": 0, "distinct_nontrivial": 0, "processes": 0, "ub_reports": 0,
                "rule": "the monitor binary's --tool miri workload (unsafe-backed operations only) interpreted by Miri with isolation disabled and leak checking on, one process per sub-check/shard; evaluations = cases completed under the interpreter",
                "samples": [], "sub_checks": {}}
    viols, probs = [], []
    if not plan:
        return evidence, viols, probs
    env = env_for_build()
    env["MIRIFLAGS"] = "-Zmiri-disable-isolation"
    base = ["cargo", "+nightly", "miri", "run", "--offline", "-q", "-p", "props", "--bin", binname, "--"]
    # build (and sysroot) once, serially
    t0 = time.time()
    warm = subprocess.run(base + ["--tool", "miri", "--tier", tier, "--threads", "1", "--sub", "__none__", "--out", os.path.join(rundir, "miri_warm.json")],
                          cwd=harness, env=env, stdout=subprocess.PIPE, stderr=subprocess.PIPE, text=True)
    log(f"[miri build {binname}] rc={warm.returncode} {time.time()-t0:.1f}s")
    if warm.returncode != 0 and "error: Undefined Behavior" not in warm.stderr and not os.path.exists(os.path.join(rundir, "miri_warm.json")):
        probs.append("miri: cannot build/run the monitor under Miri: " + warm.stderr[-1500:])
        return evidence, viols, probs

    jobs = []
    for sub, shards in plan:
        for sh in range(shards):
            out = os.path.join(rundir, f"miri_{sub}_{sh}.json")
            args = ["--tool", "miri", "--tier", tier, "--seed", str(seed), "--threads", "1", "--sub", sub, "--shard", f"{sh}/{shards}", "--out", out]
            jobs.append((sub, sh, shards, args, out))

    def one(job):
        sub, sh, shards, args, out = job
        t1 = time.time()
        try:
            r = subprocess.run(base + args, cwd=harness, env=env, stdout=subprocess.PIPE, stderr=subprocess.PIPE, text=True, timeout=5400)
            if r.returncode != 0 and not os.path.exists(out) and parse_miri_stderr(r.stderr) is None:
                # the interpreter never got to the workload (seen once: 16 concurrent `cargo miri run`
                # start-ups on a loaded machine, rc=1 after 4 s, no diagnostic, no result file): a
                # start-up failure is not an observation of vek, so the shard is started once more
                log(f"[miri {binname} {sub} {sh}/{shards}] start-up failure rc={r.returncode}, retrying once; stderr tail: {r.stderr[-300:]}")
                time.sleep(2)
                r = subprocess.run(base + args, cwd=harness, env=env, stdout=subprocess.PIPE, stderr=subprocess.PIPE, text=True, timeout=5400)
            return job, r.returncode, r.stderr, time.time() - t1
        except subprocess.TimeoutExpired:
            return job, None, "timeout", time.time() - t1

    with concurrent.futures.ThreadPoolExecutor(max_workers=16) as ex:
        results = list(ex.map(one, jobs))

    for (sub, sh, shards, args, out), rc, err, dt in results:
        evidence["processes"] += 1
        se = evidence["sub_checks"].setdefault(sub, {"processes": 0, "cases_completed": 0, "distinct": 0, "ub": 0, "wall_s": 0.0})
        se["processes"] += 1
        se["wall_s"] = round(se["wall_s"] + dt, 1)
        log(f"[miri {binname} {sub} {sh}/{shards}] rc={rc} {dt:.1f}s")
        if rc is None:
            probs.append(f"miri {sub} shard {sh}: watchdog")
            continue
        diag = parse_miri_stderr(err)
        doc = None
        if os.path.exists(out):
            try:
                with open(out) as f:
                    doc = json.load(f)
            except Exception:
                doc = None
        if doc:
            for s in doc["subs"]:
                evidence["evaluations"] += s["evaluations"]
                evidence["distinct_nontrivial"] += s["distinct_nontrivial"]
                se["cases_completed"] += s["evaluations"]
                se["distinct"] += s["distinct_nontrivial"]
                for smp in s.get("samples", [])[:1]:
                    if len(evidence["samples"]) < 4:
                        evidence["samples"].append(f"[miri {sub}] {smp}")
                # ledger / oracle violations found while interpreted
                for v in s.get("violations", []):
                    w = dict(v)
                    w["profile"] = "miri"
                    w["replay_cmd"] = "cd /verif/harness && MIRIFLAGS=-Zmiri-disable-isolation RUSTFLAGS='--cfg vek_verif' CARGO_TARGET_DIR=/verif/target cargo +nightly miri run --offline -q -p props --bin %s -- %s" % (binname, " ".join(args[:-2]))
                    viols.append(w)
        if diag:
            msg, fn, loc = diag
            kind = classify_ub(msg)
            evidence["ub_reports"] += 1
            se["ub"] += 1
            ty = "Own" if "own" in sub or "Own" in err[:4000] else ("Tag" if "tag" in sub else "harness element types")
            api = short_vek_fn(fn) if fn else "unknown (no vek frame in the backtrace)"
            viols.append({
                "sub": f"miri:{sub}", "api": api, "ty": ty, "class": "ub",
                "sig": f"{prop}|{api}|miri|ub|{kind}",
                "detail": f"Miri: {msg} | first vek frame: {fn} at {loc} | shard {sh}/{shards} of {sub}",
                "profile": "miri", "case_seed": seed, "case_index": None,
                "replay_cmd": "cd /verif/harness && MIRIFLAGS=-Zmiri-disable-isolation RUSTFLAGS='--cfg vek_verif' CARGO_TARGET_DIR=/verif/target cargo +nightly miri run --offline -q -p props --bin %s -- %s" % (binname, " ".join(args[:-2])),
            })
        elif rc not in (0, 1) or doc is None:
            probs.append(f"miri {sub} shard {sh}: ended rc={rc} without a diagnostic or result file; stderr tail: {err[-600:]}")
    return evidence, viols, probs


def run_memcheck(prop, path, tier, seed, rundir, log):
    evidence = {"tool": "valgrind-memcheck", "evaluations": 0, "distinct_nontrivial": 0, "errors": 0,
                "rule": "the release monitor binary's --tool memcheck workload (raw memory operations enabled) under valgrind memcheck with full leak check; evaluations = cases completed; every memcheck error context whose stack reaches vek is a violation",
                "samples": []}
    viols, probs = [], []
    if path is None or shutil.which("valgrind") is None:
        probs.append("memcheck: binary or valgrind missing")
        return evidence, viols, probs
    shards = 8
    jobs = []
    for sh in range(shards):
        out = os.path.join(rundir, f"memcheck_{sh}.json")
        logf = os.path.join(rundir, f"memcheck_{sh}.log")
        cmd = ["valgrind", "--tool=memcheck", "--error-exitcode=0", "--leak-check=full", "--show-leak-kinds=definite,indirect", "--errors-for-leak-kinds=definite,indirect",
               "--num-callers=30", f"--log-file={logf}", path, "--tool", "memcheck", "--tier", "quick", "--seed", str(seed), "--threads", "1", "--shard", f"{sh}/{shards}", "--out", out]
        jobs.append((sh, cmd, out, logf))

    def one(job):
        sh, cmd, out, logf = job
        t1 = time.time()
        try:
            r = subprocess.run(cmd, stdout=subprocess.PIPE, stderr=subprocess.PIPE, text=True, timeout=5400)
            return job, r.returncode, time.time() - t1
        except subprocess.TimeoutExpired:
            return job, None, time.time() - t1

    with concurrent.futures.ThreadPoolExecutor(max_workers=8) as ex:
        results = list(ex.map(one, jobs))
    seen = set()
    for (sh, cmd, out, logf), rc, dt in results:
        log(f"[memcheck shard {sh}] rc={rc} {dt:.1f}s")
        if rc is None:
            probs.append(f"memcheck shard {sh}: watchdog")
            continue
        shard_has_violations = False
        if os.path.exists(out):
            with open(out) as f:
                doc = json.load(f)
            shard_has_violations = any(s.get("violations_total", 0) > 0 for s in doc["subs"])
            for s in doc["subs"]:
                evidence["evaluations"] += s["evaluations"]
                evidence["distinct_nontrivial"] += s["distinct_nontrivial"]
                for smp in s.get("samples", [])[:1]:
                    if len(evidence["samples"]) < 3:
                        evidence["samples"].append(f"[memcheck] {smp}")
                for v in s.get("violations", []):
                    w = dict(v)
                    w["profile"] = "memcheck"
                    viols.append(w)
        else:
            probs.append(f"memcheck shard {sh}: no result file (rc={rc})")
        if os.path.exists(logf):
            text = open(logf, errors="replace").read()
            # error contexts: blocks starting with "==pid== <Kind>" followed by "at 0x...: fn (file:line)"
            blocks = re.split(r"\n==\d+== \n", text)
            for b in blocks:
                head = re.search(r"==\d+== (Invalid read|Invalid write|Invalid free|Mismatched free|Conditional jump or move depends on uninitialised|Use of uninitialised|Source and destination overlap|[\d,]+ bytes in [\d,]+ blocks are (?:definitely|indirectly) lost)[^\n]*", b)
                if not head:
                    continue
                fns = re.findall(r"(?:at|by) 0x[0-9A-F]+: ([^\n]+)", b)
                vek_frames = [f for f in fns if "vek::" in f]
                kind = head.group(1)
                # (after a violation the monitor deliberately forgets the objects involved, so leaks in a
                # shard that already reported violations are a consequence, not a separate finding)
                if not vek_frames and "lost" in kind and not shard_has_violations and any("monitors::tag::Own" in f or "Own as" in f for f in fns):
                    # a leaked ownership token: allocated by the harness, lost by the code under test
                    vek_frames = ["(leaked Own element: allocated by the harness, never freed)"]
                if not vek_frames:
                    continue
                kind = re.sub(r"[\d,]+ bytes in [\d,]+ blocks are (\w+) lost", r"\1_leak", kind).lower().replace(" ", "_")
                fn = re.sub(r" \([^()]*\)$", "", vek_frames[0])
                api = short_vek_fn(fn)
                key = (kind, api)
                evidence["errors"] += 1
                if key in seen:
                    continue
                seen.add(key)
                viols.append({
                    "sub": "memcheck", "api": api, "ty": "Own", "class": "ub",
                    "sig": f"{prop}|{api}|memcheck|ub|{kind}",
                    "detail": f"valgrind memcheck: {head.group(0)[:200]} | first vek frame: {fn} | stack: {' <- '.join(fns[:6])}",
                    "profile": "memcheck", "case_seed": seed, "case_index": None,
                    "replay_cmd": " ".join(cmd[:-2]).replace(f"--log-file={logf}", "--log-file=/dev/stderr"),
                })
    return evidence, viols, probs


def run_config_sweep(prop, tier, seed, rundir, verif, log):
    import sweep
    return sweep.run(prop, tier, seed, rundir, verif, log)

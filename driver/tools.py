"""Sanitizer / build-sweep tools used by ./check (filled in per property)."""


def run_miri(prop, binname, tier, seed, rundir, env_for_build, harness, target, log):
    return {"evaluations": 0, "distinct_nontrivial": 0, "rule": "not implemented yet", "samples": []}, [], []


def run_memcheck(prop, path, tier, seed, rundir, log):
    return {"evaluations": 0, "distinct_nontrivial": 0, "rule": "not implemented yet", "samples": []}, [], []


def run_config_sweep(prop, tier, seed, rundir, verif, log):
    return {"evaluations": 0, "distinct_nontrivial": 0, "rule": "not implemented yet", "samples": []}, [], []

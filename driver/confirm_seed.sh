#!/bin/bash
# Confirm a candidate seeded change in a scratch worktree (never in /repo itself):
#   driver/confirm_seed.sh <dir with patch.diff demo.rs meta.json> <scratch worktree>
# 1. demo passes on the clean worktree  2. patch applies, library builds (default + all type
# features)  3. the pinned suite still passes with the patch  4. demo fails with the patch.
D=$(readlink -f "$1"); WT=$(readlink -f "$2")
[ -f "$D/patch.diff" ] && [ -f "$D/demo.rs" ] || { echo "confirm: missing patch.diff/demo.rs in $D"; exit 2; }
FEAT=$(python3 -c "import json,sys; print(json.load(open('$D/meta.json')).get('features','') or '')" 2>/dev/null)
FARG=(); [ -n "$FEAT" ] && FARG=(--features "$FEAT")
NDF=$(python3 -c "import json,sys; print('1' if json.load(open('$D/meta.json')).get('no_default_features') else '')" 2>/dev/null)
[ -n "$NDF" ] && FARG=(--no-default-features "${FARG[@]}")
cd "$WT" || exit 2
T=$(mktemp -d /tmp/confirm.XXXXXX)
git checkout -q -- . ; rm -f tests/demo.rs; mkdir -p tests
cp "$D/demo.rs" tests/demo.rs
export CARGO_NET_OFFLINE=true
cargo test --offline -q --test demo "${FARG[@]}" >$T/confirm_clean.log 2>&1; c1=$?
git apply "$D/patch.diff" || { echo "confirm: patch does not apply"; rm -f tests/demo.rs; exit 2; }
cargo check --offline -q --no-default-features --features "std vec8 vec16 vec32 vec64 rgb rgba uv uvw" >$T/confirm_check.log 2>&1; c2=$?
mv tests/demo.rs $T/confirm_demo.rs
(cargo nextest run --offline --no-fail-fast 2>&1 || cargo test --offline --lib 2>&1) | tail -3 >$T/confirm_suite.log; grep -q "674 passed" $T/confirm_suite.log; c3=$?
mv $T/confirm_demo.rs tests/demo.rs
cargo test --offline -q --test demo "${FARG[@]}" >$T/confirm_patched.log 2>&1; c4=$?
git checkout -q -- . ; rm -f tests/demo.rs
rm -rf "$T"
echo "confirm $D: demo_on_clean=$([ $c1 = 0 ] && echo pass || echo FAIL) build_all_features=$([ $c2 = 0 ] && echo ok || echo FAIL) suite_with_patch=$([ $c3 = 0 ] && echo 674-pass || echo FAIL) demo_with_patch=$([ $c4 != 0 ] && echo fails-as-required || echo PASSES)"
[ $c1 = 0 ] && [ $c2 = 0 ] && [ $c3 = 0 ] && [ $c4 != 0 ]

#!/usr/bin/env python3
"""Source-coverage map of the monitors' workloads over vek (a design-time aid, not a check).

  driver/coverage.py [IDs...]         # default: every built property

Builds each monitor binary with -Cinstrument-coverage (nightly: the only toolchain that ships
llvm-cov) into /verif/target-cov, runs its quick workload natively, and for every property lists

  * functions (`fn` lines) inside the property's anchored line ranges that were never
    *instantiated* by that monitor (generic code that is never monomorphised is invisible to a
    coverage report, so it is found by diffing the `fn` lines of the source against the
    instrumented lines),
  * instantiated lines inside the anchors that were never *executed*.

Output: /verif/coverage/<ID>.json and /verif/coverage/REPORT.md.  The report says which code the
workloads reach; it is what the "nothing is claimed about code no workload reaches" sentence of
DESIGN.md is measured against.
"""
import json
import os
import re
import subprocess
import sys

VERIF = os.path.dirname(os.path.dirname(os.path.abspath(__file__)))
T = os.path.join(VERIF, "target-cov")
LLVM = "/root/.rustup/toolchains/nightly-x86_64-unknown-linux-gnu/lib/rustlib/x86_64-unknown-linux-gnu/bin"
sys.path.insert(0, VERIF)


def plan():
    src = open(os.path.join(VERIF, "check")).read()
    g = {}
    m = re.search(r"^PLAN = \{.*?^\}", src, re.S | re.M)
    exec(m.group(0), g)
    return g["PLAN"]


def anchors(prop):
    out = []
    for l in open(os.path.join(VERIF, "properties.jsonl")):
        p = json.loads(l)
        if p["id"] != prop:
            continue
        for mech in p["anchors"]["mechanism"]:
            for part in mech["where"].split(";"):
                part = part.strip()
                mm = re.match(r"(\S+?):(.*)$", part)
                if not mm:
                    continue
                f = mm.group(1)
                for r in mm.group(2).split(","):
                    r = r.strip()
                    if "-" in r:
                        a, b = r.split("-")
                        out.append((f, int(a), int(b), mech["name"]))
                    elif r:
                        out.append((f, int(r), int(r), mech["name"]))
    return out


def sh(cmd, **kw):
    return subprocess.run(cmd, stdout=subprocess.PIPE, stderr=subprocess.STDOUT, text=True, **kw)


def build(binname, features):
    env = dict(os.environ)
    env["RUSTFLAGS"] = "--cfg vek_verif -Cinstrument-coverage"
    env["CARGO_TARGET_DIR"] = T
    env["CARGO_NET_OFFLINE"] = "true"
    # build scripts are instrumented too and would drop default_*.profraw into /repo
    env["LLVM_PROFILE_FILE"] = os.path.join(T, "prof", "buildscript-%p.profraw")
    cmd = ["cargo", "+nightly", "build", "--offline", "-q", "--release", "-p", "props", "--bin", binname]
    if features:
        cmd += ["--features", features]
    r = sh(cmd, cwd=os.path.join(VERIF, "harness"), env=env)
    if r.returncode != 0:
        print(r.stdout[-3000:])
        raise SystemExit(f"coverage build of {binname} failed")


def line_table(binname):
    """returns {file: {line: count}} for /repo/src files"""
    prof = os.path.join(T, "prof")
    data = os.path.join(prof, f"{binname}.profdata")
    raws = [os.path.join(prof, f) for f in os.listdir(prof) if f.startswith(binname + "-") and f.endswith(".profraw")]
    if raws or not os.path.exists(data):
        r = sh([f"{LLVM}/llvm-profdata", "merge", "-sparse", *raws, "-o", data])
        if r.returncode != 0:
            raise SystemExit(r.stdout)
    r = subprocess.run([f"{LLVM}/llvm-cov", "export", "-format=lcov", os.path.join(T, "release", binname),
                        f"-instr-profile={data}", "--sources", "/repo/src"],
                       stdout=subprocess.PIPE, stderr=subprocess.DEVNULL, text=True)
    table = {}
    cur = None
    for l in r.stdout.splitlines():
        if l.startswith("SF:"):
            cur = table.setdefault(l[3:].replace("/repo/", ""), {})
        elif l.startswith("DA:") and cur is not None:
            a, b = l[3:].split(",")[:2]
            cur[int(a)] = max(cur.get(int(a), 0), int(b))
    for f in raws:
        os.remove(f)
    return table


FN = re.compile(r"^\s*(pub(\([a-z]+\))?\s+)?(const\s+)?(unsafe\s+)?fn\s+([A-Za-z_0-9$]+)")


def union_report():
    """Which `fn` lines of vek's source are reached by no monitor at all (from the kept profdata)."""
    ids = [l.strip() for l in open(os.path.join(VERIF, "driver", "built.txt")) if l.strip()]
    union = {}
    by = {}
    for prop in ids:
        t = line_table(prop.lower())
        for f, tf in t.items():
            u = union.setdefault(f, {})
            for ln, c in tf.items():
                u[ln] = max(u.get(ln, 0), c)
                if c > 0:
                    by.setdefault((f, ln), []).append(prop)
    out = ["# vek `fn` lines that no monitor reaches (union over the 20 monitors' quick workloads)", "",
           "`not instantiated` = generic code that no monitor monomorphises; `not executed` = compiled in, counter 0.",
           "Test modules, `repr_simd` and feature-gated code the harness does not enable (serde, image, libm) are listed too: they are outside every property.", ""]
    doc = {}
    for f in sorted(os.listdir("/repo/src")):
        if not f.endswith(".rs"):
            continue
        key = "src/" + f
        lines = open(os.path.join("/repo/src", f)).read().splitlines()
        tf = union.get(key, {})
        ni, ne, total = [], [], 0
        in_tests = False
        for ln, text in enumerate(lines, 1):
            if re.match(r"\s*mod tests?\b", text) or "#[cfg(test)]" in text:
                in_tests = True
            m = FN.match(text)
            if not m or in_tests:
                continue
            total += 1
            seen = [tf.get(k) for k in range(ln, ln + 4) if k in tf]
            if not seen:
                ni.append((ln, text.strip()[:150]))
            elif max(seen) == 0:
                ne.append((ln, text.strip()[:150]))
        nlines = len(tf)
        nhit = sum(1 for v in tf.values() if v > 0)
        out.append(f"## {key}: {total} fn lines outside test modules, {len(ni)} not instantiated, {len(ne)} not executed; {nhit}/{nlines} instrumented lines executed")
        for ln, t in ni:
            out.append(f"* not instantiated: `{key}:{ln}` `{t}`")
        for ln, t in ne:
            out.append(f"* not executed: `{key}:{ln}` `{t}`")
        unexec = sorted(ln for ln, v in tf.items() if v == 0)
        if unexec:
            out.append(f"* instrumented lines never executed: {unexec[:200]}")
        out.append("")
        doc[key] = {"fn_lines": total, "not_instantiated": ni, "not_executed": ne, "instrumented_lines": nlines, "executed_lines": nhit, "unexecuted_lines": unexec}
    open(os.path.join(VERIF, "coverage", "UNION.md"), "w").write("\n".join(out) + "\n")
    json.dump(doc, open(os.path.join(VERIF, "coverage", "union.json"), "w"), indent=1)
    for l in out:
        if l.startswith("## "):
            print(l)


def main():
    if sys.argv[1:] == ["--union"]:
        os.makedirs(os.path.join(VERIF, "coverage"), exist_ok=True)
        return union_report()
    ids = [a.upper() for a in sys.argv[1:]] or [l.strip() for l in open(os.path.join(VERIF, "driver", "built.txt")) if l.strip()]
    P = plan()
    os.makedirs(os.path.join(T, "prof"), exist_ok=True)
    os.makedirs(os.path.join(VERIF, "coverage"), exist_ok=True)
    srcs = {}
    report = ["# Which vek source the monitors' quick workloads reach", "",
              "Generated by `driver/coverage.py` (nightly `-Cinstrument-coverage`, release profile, native quick workload only:",
              "Miri / memcheck / configuration-sweep runs are not included).  A `fn` line inside a property's anchored range",
              "is *not instantiated* when the monitor never monomorphises it (absent from the coverage map), *not executed* when",
              "it is compiled in but its counter stayed 0.  Macro-generated code is attributed to the macro body's lines, so one",
              "line stands for all the types the macro is expanded for: a line counts as reached when any expansion reached it.", ""]
    for prop in ids:
        b = prop.lower()
        build(b, P[prop].get("features"))
        env = dict(os.environ)
        env["LLVM_PROFILE_FILE"] = os.path.join(T, "prof", f"{b}-%p.profraw")
        args = [os.path.join(T, "release", b), "--tier", "quick", "--seed", "1", "--out", os.path.join(T, "prof", f"{b}.json"), "--threads", "16"]
        if P[prop].get("quick_scale"):
            args += ["--scale", str(max(100, P[prop]["quick_scale"] // 10))]
        r = sh(args, cwd=VERIF, env=env)
        if r.returncode != 0:
            print(prop, "monitor rc", r.returncode, r.stdout[-500:])
        table = line_table(b)
        anc = anchors(prop)
        not_inst, not_exec, n_fn, n_lines, n_hit = [], [], 0, 0, 0
        for (f, a, z, name) in anc:
            if f not in srcs:
                srcs[f] = open(os.path.join("/repo", f)).read().splitlines()
            lines = srcs[f]
            tf = table.get(f, {})
            for ln in range(a, min(z, len(lines)) + 1):
                text = lines[ln - 1]
                if ln in tf:
                    n_lines += 1
                    if tf[ln] > 0:
                        n_hit += 1
                m = FN.match(text)
                if m:
                    n_fn += 1
                    # the fn line itself or one of the next few lines carries the entry counter
                    seen = [tf.get(k) for k in range(ln, ln + 4) if k in tf]
                    if not seen:
                        not_inst.append({"file": f, "line": ln, "fn": m.group(5), "text": text.strip()[:140]})
                    elif max(seen) == 0:
                        not_exec.append({"file": f, "line": ln, "fn": m.group(5), "text": text.strip()[:140]})
        dead = []
        for (f, a, z, name) in anc:
            tf = table.get(f, {})
            run = []
            for ln in range(a, z + 1):
                if ln in tf and tf[ln] == 0:
                    run.append(ln)
            if run:
                dead.append({"file": f, "lines": run[:60], "mechanism": name})
        doc = {"property": prop, "anchored_fn_lines": n_fn, "fn_not_instantiated": not_inst, "fn_instantiated_not_executed": not_exec,
               "instrumented_lines_in_anchors": n_lines, "executed_lines_in_anchors": n_hit, "unexecuted_lines": dead}
        json.dump(doc, open(os.path.join(VERIF, "coverage", f"{prop}.json"), "w"), indent=1)
        report.append(f"## {prop}: {n_hit}/{n_lines} instrumented anchor lines executed; {n_fn} fn lines in anchors, "
                      f"{len(not_inst)} never instantiated, {len(not_exec)} instantiated but never executed")
        for e in not_inst:
            report.append(f"* not instantiated: `{e['file']}:{e['line']}` `{e['text']}`")
        for e in not_exec:
            report.append(f"* not executed: `{e['file']}:{e['line']}` `{e['text']}`")
        for d in dead:
            report.append(f"* unexecuted lines in {d['file']} ({d['mechanism']}): {d['lines']}")
        report.append("")
        print(report[-1 - len(not_inst) - len(not_exec) - len(dead) - 1])
        sys.stdout.flush()
    if not sys.argv[1:]:
        open(os.path.join(VERIF, "coverage", "REPORT.md"), "w").write("\n".join(report) + "\n")
    else:
        print("\n".join(report[8:]))


if __name__ == "__main__":
    main()

#!/bin/bash
# Apply a patch to /repo's working tree, run checks against it, restore the tree.
#   driver/try_patch.sh [-R] <patch.diff> <tier> <ID> [<ID> ...]
# Prints one line per check: "<ID> rc=<n>" plus the VIOLATION / KNOWN-FINDING lines.
# Never commits anything in /repo.  Used only to validate the monitors against seeded changes
# and against the pre-fix state of repaired defects.
REV=""
if [ "$1" = "-R" ]; then REV="-R"; shift; fi
PATCH=$(readlink -f "$1"); TIER=$2; shift 2
cd /verif || exit 2
if [ -n "$(git -C /repo status --porcelain --untracked-files=no)" ]; then echo "try_patch: /repo is not clean"; exit 2; fi
restore() { git -C /repo checkout -- . ; git -C /repo status --porcelain --untracked-files=no | grep -q . && echo "try_patch: WARNING /repo still dirty"; }
trap restore EXIT
git -C /repo apply $REV "$PATCH" || { echo "try_patch: patch does not apply"; exit 2; }
for id in "$@"; do
  out=$(VERIF_EVIDENCE_DIR=/verif/target/patched-evidence VERIF_TARGET_DIR=${VERIF_TARGET_DIR:-/verif/target} ./check "$id" --tier "$TIER" 2>/tmp/try_patch_$id.err)
  rc=$?
  echo "$id rc=$rc"
  echo "$out" | grep -E "^(VIOLATION|KNOWN-FINDING|HARNESS-PROBLEM|BUILD-ERROR|OK)" | cut -c1-400
  echo "$out" | grep -A1 "^VIOLATION" | grep -v "^VIOLATION" | grep -v "^--" | cut -c1-500 | head -8
done

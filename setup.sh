#!/bin/sh
# Build the monitor binaries from files on disk only (offline). Run once after a fresh restore.
set -e
cd /verif/harness
export CARGO_NET_OFFLINE=true
export CARGO_TARGET_DIR=/verif/target
export RUSTFLAGS="--cfg vek_verif"
[ -f Cargo.lock ] || cp /repo/Cargo.lock Cargo.lock
BINS=""
for p in $(cat /verif/driver/built.txt); do
  b=$(echo "$p" | tr 'A-Z' 'a-z')
  if [ "$b" = "c20" ]; then continue; fi
  BINS="$BINS --bin $b"
done
cargo build --offline --release -p props $BINS
cargo build --offline --profile checked -p props $BINS
# third profile: the same monitors against vek built with `libm` instead of `std` (own target directory)
CARGO_TARGET_DIR=/verif/target/libm cargo build --offline --release -p props $BINS --no-default-features --features vek-libm
if grep -q '^C20$' /verif/driver/built.txt; then
  # the C20 monitor needs vek's interoperability features (az, mint, bytemuck)
  cargo build --offline --release -p props --bin c20 --features interop
  cargo build --offline --profile checked -p props --bin c20 --features interop
  CARGO_TARGET_DIR=/verif/target/libm cargo build --offline --release -p props --bin c20 --no-default-features --features vek-libm,interop
fi
echo "setup: monitor binaries built"

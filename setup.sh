#!/bin/sh
# Build the monitor binaries from files on disk only (offline). Run once after a fresh restore.
set -e
cd /verif/harness
export CARGO_NET_OFFLINE=true
export CARGO_TARGET_DIR=/verif/target
export RUSTFLAGS="--cfg vek_verif"
[ -f Cargo.lock ] || cp /repo/Cargo.lock Cargo.lock
cargo build --offline --release -p props --bins
echo "setup: monitor binaries built"
